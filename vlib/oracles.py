"""Independent reference formulas (never the function under test judging itself)."""
import math
import numpy as np

TWO_PI = 2.0 * math.pi


def metric(cell):
    """Direct metric tensor from its definition, reciprocal metric, volume."""
    a, b, c, al, be, ga = [float(x) for x in cell]
    ca, cb, cg = (math.cos(math.radians(x)) for x in (al, be, ga))
    G = np.array([[a * a, a * b * cg, a * c * cb],
                  [a * b * cg, b * b, b * c * ca],
                  [a * c * cb, b * c * ca, c * c]])
    Gs = np.linalg.inv(G)
    V = math.sqrt(max(np.linalg.det(G), 0.0))
    return G, Gs, V


def gram_det(cell):
    ca, cb, cg = (math.cos(math.radians(x)) for x in cell[3:6])
    return 1 - ca * ca - cb * cb - cg * cg + 2 * ca * cb * cg


def stl(Gs, h):
    h = np.asarray(h, float)
    return 0.5 * math.sqrt(max(float(h @ Gs @ h), 0.0))


def cell_from_metric(G):
    a, b, c = (math.sqrt(G[i, i]) for i in range(3))
    def ang(x):
        return math.degrees(math.acos(max(-1.0, min(1.0, x))))
    return [a, b, c, ang(G[1, 2] / b / c), ang(G[0, 2] / a / c), ang(G[0, 1] / a / b)]


def normalise_metric(G):
    d = np.sqrt(np.diag(G))
    return G / np.outer(d, d)


def Rx(t):
    c, s = math.cos(t), math.sin(t)
    return np.array([[1, 0, 0], [0, c, -s], [0, s, c]], float)


def Ry(t):
    c, s = math.cos(t), math.sin(t)
    return np.array([[c, 0, s], [0, 1, 0], [-s, 0, c]], float)


def Rz(t):
    c, s = math.cos(t), math.sin(t)
    return np.array([[c, -s, 0], [s, c, 0], [0, 0, 1]], float)


def euler_ref(p1, P, p2):
    return Rz(p1) @ Rx(P) @ Rz(p2)


def quat_to_mat(q):
    """Active rotation matrix of a unit quaternion (w, x, y, z)."""
    w, x, y, z = q
    n = math.sqrt(w * w + x * x + y * y + z * z)
    w, x, y, z = w / n, x / n, y / n, z / n
    return np.array([[1 - 2 * (y * y + z * z), 2 * (x * y - z * w), 2 * (x * z + y * w)],
                     [2 * (x * y + z * w), 1 - 2 * (x * x + z * z), 2 * (y * z - x * w)],
                     [2 * (x * z - y * w), 2 * (y * z + x * w), 1 - 2 * (x * x + y * y)]])


def axis_angle(axis, angle):
    """Active right-handed rotation by `angle` about `axis` (Rodrigues' formula)."""
    k = np.asarray(axis, float)
    k = k / np.linalg.norm(k)
    K = np.array([[0, -k[2], k[1]], [k[2], 0, -k[0]], [-k[1], k[0], 0]])
    return np.eye(3) + math.sin(angle) * K + (1 - math.cos(angle)) * (K @ K)


def rot_angle_deg(R):
    c = (np.trace(R) - 1) / 2
    return math.degrees(math.acos(max(-1.0, min(1.0, c))))


def ortho_defect(U):
    U = np.asarray(U, float)
    return float(np.max(np.abs(U.T @ U - np.eye(3))))


_AX = None


def axis_aligned():
    """The 24 proper signed permutation matrices."""
    global _AX
    if _AX is None:
        import itertools
        out = []
        for p in itertools.permutations(range(3)):
            for s in itertools.product((1, -1), repeat=3):
                M = np.zeros((3, 3))
                for i in range(3):
                    M[i, p[i]] = s[i]
                if abs(np.linalg.det(M) - 1) < 1e-9:
                    out.append(M)
        _AX = out
    return _AX


LAYOUT_F = False      # set per case by the harness: one case in four hands over column-major (Fortran-ordered) 2-D arrays


def ro(a):
    """read-only float copy: handing the library a non-writeable array turns any in-place modification of a caller's
    argument into an immediate exception (a finding), instead of a silent corruption that only a later call would see.
    In the cases for which the harness sets LAYOUT_F, 2-D arrays are column-major (as a transposed view or a matrix that
    came out of a Fortran-ordered computation is): same values, same shape, other memory order"""
    a = np.array(a, float)
    if LAYOUT_F and a.ndim == 2 and a.shape[0] > 1 and a.shape[1] > 1:
        a = np.asfortranarray(a)
    a.setflags(write=False)
    return a


def maxabs(x):
    x = np.asarray(x, float)
    if x.size == 0:
        return 0.0
    m = np.max(np.abs(x))
    return float(m) if m == m else float("nan")


def ang_diff(a, b, period=TWO_PI):
    d = (a - b) % period
    return min(d, period - d)
