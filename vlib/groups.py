"""Exact space-group arithmetic on the tabulated operators (integers / 24ths), the 237
settings, conforming cells, reference Laue groups, extinction and orbit oracles."""
import math, itertools
from fractions import Fraction as Fr
import numpy as np

RHOMB = [146, 148, 155, 160, 161, 166, 167]
SETTINGS = [(n, "standard") for n in range(1, 231)] + [(n, "rhombohedral") for n in RHOMB]


def system_of_number(no):
    if no <= 2: return "triclinic"
    if no <= 15: return "monoclinic"
    if no <= 74: return "orthorhombic"
    if no <= 142: return "tetragonal"
    if no <= 167: return "trigonal"
    if no <= 194: return "hexagonal"
    return "cubic"


LAUE_SYSTEM = {"-1": "triclinic", "2/m": "monoclinic", "mmm": "orthorhombic", "4/m": "tetragonal", "4/mmm": "tetragonal",
               "-3": "trigonal", "-3m1": "trigonal", "-31m": "trigonal", "-3m": "trigonal", "6/m": "hexagonal",
               "6/mmm": "hexagonal", "m-3": "cubic", "m-3m": "cubic"}


class Group(object):
    """Exact copy of one tabulated setting: integer rotations, translations in 24ths."""

    def __init__(self, no, choice):
        # read the table class directly (not through the sg.sg lookup layer, whose behaviour - name handling,
        # setting selection, any caching - is itself under test): the oracles then do not inherit its mistakes
        from xfab import sglib
        g = getattr(sglib, "Sg%d" % no)(cell_choice=choice)
        self.sg = g
        self.no, self.choice = no, choice
        self.name = g.name
        self.nsymop, self.nuniq = int(g.nsymop), int(g.nuniq)
        self.Laue, self.crystal_system, self.cell_choice = g.Laue, g.crystal_system, g.cell_choice
        rot = np.asarray(g.rot, float)
        trans = np.asarray(g.trans, float)
        self.rot_f, self.trans_f = rot, trans
        self.rot_integral = bool(rot.size and np.array_equal(rot, np.round(rot)))
        self.R = np.round(rot).astype(np.int64)
        t24 = trans * 24
        self.T24 = np.round(t24).astype(np.int64)
        self.trans_defect = float(np.max(np.abs(t24 - self.T24)) / 24) if trans.size else 0.0
        self.syscond = np.asarray(g.syscond)

    def point_group(self):
        """Distinct rotations of the table (as a list of int matrices)."""
        seen, out = set(), []
        for R in self.R:
            k = tuple(R.ravel())
            if k not in seen:
                seen.add(k)
                out.append(R)
        return out

    def laue_ops(self):
        P = self.point_group()
        seen, out = set(), []
        for R in P + [-R for R in P]:
            k = tuple(R.ravel())
            if k not in seen:
                seen.add(k)
                out.append(R)
        return np.array(out)

    def extinct(self, H):
        """H: (n,3) int array of row vectors. True where some (R,t) has hR = h and h.t not integral."""
        H = np.asarray(H, np.int64)
        ext = np.zeros(len(H), bool)
        for R, t in zip(self.R, self.T24):
            ext |= np.all(H @ R == H, axis=1) & ((H @ t) % 24 != 0)
        return ext

    def exact_orbit_size(self, pos):
        """pos: three Fractions. Number of distinct images modulo 1."""
        pts = set()
        for R, t in zip(self.R, self.T24):
            pts.add(tuple((sum(int(R[i][j]) * pos[j] for j in range(3)) + Fr(int(t[i]), 24)) % 1 for i in range(3)))
        return len(pts)

    def orbit(self, pos):
        out, seen = [], set()
        for k, (R, t) in enumerate(zip(self.R, self.T24)):
            p = tuple((sum(int(R[i][j]) * pos[j] for j in range(3)) + Fr(int(t[i]), 24)) % 1 for i in range(3))
            if p not in seen:
                seen.add(p)
                out.append((p, k))
        return out

    def stabiliser(self, pos):
        """indices of operations mapping pos to itself modulo 1"""
        p0 = tuple(x % 1 for x in pos)
        idx = []
        for k, (R, t) in enumerate(zip(self.R, self.T24)):
            p = tuple((sum(int(R[i][j]) * pos[j] for j in range(3)) + Fr(int(t[i]), 24)) % 1 for i in range(3))
            if p == p0:
                idx.append(k)
        return idx


_GROUPS = {}


def group(no, choice="standard"):
    k = (no, choice)
    if k not in _GROUPS:
        _GROUPS[k] = Group(no, choice)
    return _GROUPS[k]


def aliases(no, choice):
    """accepted spellings of this setting, derived from the naming rule and the table's own name (NOT from the
    library's name dictionary, which is under test): the name itself, and name + 'h' for an R group on hexagonal axes"""
    own = group(no, choice).name
    if no in RHOMB and choice != "rhombohedral":
        return [own, own + "h"]
    if no in RHOMB and choice == "rhombohedral":
        # the plain name selects this setting too when cell_choice='rhombohedral' is passed explicitly
        return [own, group(no, "standard").name]
    return [own]


def fresh(s):
    """an equal but not identical string object, built at run time (as a value read from a file or a command line would
    be): code that compares strings by identity instead of by value must not get away with it"""
    return "".join(list(s))


def sibling(no, choice):
    """the other axis setting of an R-centred group (None for all other groups)"""
    if no in RHOMB:
        return (no, "standard" if choice == "rhombohedral" else "rhombohedral")
    return None


def touch_sibling(no, choice):
    """History element: use the other setting of the same group number right before the call under test, the way a
    program that handles both settings of an R group would (exposes state shared between settings)."""
    sib = sibling(no, choice)
    if sib is not None:
        from xfab import sg
        sg.sg(sgno=sib[0], cell_choice=sib[1])
        g = group(*sib)
        sg.sg(sgname=g.name)
    return sib


def reset_cache():
    _GROUPS.clear()


# ------------------------------------------------------------------ conforming cells
def conforming_cell(g, a, b, c, ang1, ang2, u, orth=False):
    """Cell conforming to the crystal system / setting of group g from free parameters
    (a,b,c lengths; ang1, ang2 angles in degrees; u in [-1,1]); orth -> orthogonal metric
    where the system allows obliqueness."""
    cs = g.crystal_system
    if g.cell_choice == "rhombohedral":
        al = 90.0 if orth else ang1
        return [a, a, a, al, al, al]
    if cs == "triclinic":
        if orth:
            return [a, b, c, 90.0, 90.0, 90.0]
        from .strat import _general_cell
        return _general_cell([a, b, c], ang1, ang2, u, 0.1)
    if cs == "monoclinic":
        return [a, b, c, 90.0, 90.0 if orth else ang2, 90.0]
    if cs == "orthorhombic":
        return [a, b, c, 90.0, 90.0, 90.0]
    if cs == "tetragonal":
        return [a, a, c, 90.0, 90.0, 90.0]
    if cs in ("trigonal", "hexagonal"):
        return [a, a, c, 90.0, 90.0, 120.0]
    return [a, a, a, 90.0, 90.0, 90.0]


def metric_basis(g):
    """Basis of the linear space of metric tensors conforming to the system/setting (integer matrices)."""
    E = lambda i, j: (lambda M: M)(np.array([[1 if (r, c) in ((i, j), (j, i)) else 0 for c in range(3)] for r in range(3)]))
    cs = g.crystal_system
    if g.cell_choice == "rhombohedral":
        return [np.eye(3, dtype=int), E(0, 1) + E(0, 2) + E(1, 2)]
    if cs == "triclinic":
        return [E(0, 0), E(1, 1), E(2, 2), E(0, 1), E(0, 2), E(1, 2)]
    if cs == "monoclinic":
        return [E(0, 0), E(1, 1), E(2, 2), E(0, 2)]
    if cs == "orthorhombic":
        return [E(0, 0), E(1, 1), E(2, 2)]
    if cs == "tetragonal":
        return [E(0, 0) + E(1, 1), E(2, 2)]
    if cs in ("trigonal", "hexagonal"):
        # a=b, gamma=120: G = a^2 [[1,-1/2,0],[-1/2,1,0],[0,0,0]] -> times 2 to stay integral
        return [2 * E(0, 0) + 2 * E(1, 1) - E(0, 1), E(2, 2)]
    return [np.eye(3, dtype=int)]


# ------------------------------------------------------------------ reference Laue groups
def _close(gens):
    G = {tuple(np.eye(3, dtype=int).ravel())}
    frontier = list(G)
    gens = [np.array(g) for g in gens]
    while frontier:
        new = []
        for a in frontier:
            A = np.array(a).reshape(3, 3)
            for g in gens:
                k = tuple((A @ g).ravel())
                if k not in G:
                    G.add(k)
                    new.append(k)
        frontier = new
    return G


_REF = None


def reference_laue_groups():
    global _REF
    if _REF is None:
        inv = -np.eye(3, dtype=int)
        twoy = [[-1, 0, 0], [0, 1, 0], [0, 0, -1]]; twoz = [[-1, 0, 0], [0, -1, 0], [0, 0, 1]]; twox = [[1, 0, 0], [0, -1, 0], [0, 0, -1]]
        fourz = [[0, -1, 0], [1, 0, 0], [0, 0, 1]]; three111 = [[0, 0, 1], [1, 0, 0], [0, 1, 0]]; two110 = [[0, 1, 0], [1, 0, 0], [0, 0, -1]]
        threez = [[0, -1, 0], [1, -1, 0], [0, 0, 1]]; sixz = [[1, -1, 0], [1, 0, 0], [0, 0, 1]]
        two_100_hex = [[1, -1, 0], [0, -1, 0], [0, 0, -1]]
        two_1m10_hex = [[0, -1, 0], [-1, 0, 0], [0, 0, -1]]
        two_rh = [[0, -1, 0], [-1, 0, 0], [0, 0, -1]]
        _REF = {("-1", 0): _close([inv]), ("2/m", 0): _close([twoy, inv]), ("mmm", 0): _close([twoz, twox, inv]),
                ("4/m", 0): _close([fourz, inv]), ("4/mmm", 0): _close([fourz, twox, inv]),
                ("-3", 0): _close([threez, inv]), ("-3m1", 0): _close([threez, two_100_hex, inv]),
                ("-31m", 0): _close([threez, two_1m10_hex, inv]), ("6/m", 0): _close([sixz, inv]),
                ("6/mmm", 0): _close([sixz, two_100_hex, inv]), ("m-3", 0): _close([twoz, twox, three111, inv]),
                ("m-3m", 0): _close([fourz, three111, two110, inv]), ("-3", 1): _close([three111, inv]),
                ("-3m", 1): _close([three111, two_rh, inv])}
    return _REF


LAUE_ORDER = {"-1": 2, "2/m": 4, "mmm": 8, "4/m": 8, "4/mmm": 16, "-3": 6, "-3m1": 12, "-31m": 12, "-3m": 12,
              "6/m": 12, "6/mmm": 24, "m-3": 24, "m-3m": 48}


# ------------------------------------------------------------------ reciprocal lattice enumeration
def lattice_points(cell, smax):
    """All hkl != 0 with |h_i| <= floor(2 smax a_i)+1 (bound from h_i = g.a_i) and their stl (metric oracle)."""
    from . import oracles as O
    G, Gs, V = O.metric(cell)
    hm = [int(math.floor(2 * smax * cell[i])) + 1 for i in range(3)]
    rng = [np.arange(-m, m + 1) for m in hm]
    H = np.stack(np.meshgrid(*rng, indexing="ij"), axis=-1).reshape(-1, 3)
    H = H[np.any(H != 0, axis=1)]
    s = 0.5 * np.sqrt(np.maximum(np.einsum("ij,jk,ik->i", H, Gs, H), 0.0))
    return H, s
