"""Harness shared by every property check: per-run context (counters, non-trivial
hashes, residuals, findings by root-cause bucket), the Hypothesis drivers (collect
pass / shrink pass), sharding over a process pool, known-finding handling, replay
files and the evidence writer.  See DESIGN.md section 2."""
import os, sys, json, time, hashlib, traceback, importlib, glob
from collections import Counter

VERIF = os.path.dirname(os.path.dirname(os.path.abspath(__file__)))
REPO = os.path.realpath(os.environ.get("XFAB_VERIF_REPO", "/repo"))
MAX_SAMPLES = 8


class HarnessError(Exception):
    pass


def derive_seed(*parts):
    h = hashlib.blake2b(repr(parts).encode(), digest_size=8).digest()
    return int.from_bytes(h, "big") % (2 ** 63)


def case_hash(case):
    s = json.dumps(case, sort_keys=True, default=str)
    return int.from_bytes(hashlib.blake2b(s.encode(), digest_size=8).digest(), "big")


def case_size(case):
    return len(json.dumps(case, default=str))


def import_xfab():
    """Import xfab from the tree under test and make sure it is that tree."""
    if sys.path[0] != REPO:
        sys.path.insert(0, REPO)
    import xfab
    where = os.path.realpath(os.path.dirname(xfab.__file__))
    if not where.startswith(REPO + os.sep):
        raise HarnessError("xfab imported from %s, expected under %s" % (where, REPO))
    # the whole package, as an application would have it: import-time side effects of ANY module (tables patched on
    # import, caches filled, shared dictionaries extended) are then in effect for every check
    import importlib as _il
    for sub in ("tools", "laue", "sg", "sglib", "atomlib", "structure", "symmetry", "detector", "parameters", "checks", "xfab_logging"):
        try:
            _il.import_module("xfab." + sub)
        except ImportError as e:
            raise HarnessError("cannot import xfab.%s: %r" % (sub, e))
    import logging
    logging.getLogger("xfab").setLevel(logging.CRITICAL + 1)
    logging.disable(logging.CRITICAL)
    return xfab


def reset_library_state():
    import xfab
    xfab.CHECKS._run_checks = True


_LATER = []
_LATER_TICK = 0


def _same_value(a, b):
    import numpy as _np
    if isinstance(a, (list, tuple)) and isinstance(b, (list, tuple)):
        return len(a) == len(b) and all(_same_value(x, y) for x, y in zip(a, b))
    try:
        return bool(_np.array_equal(_np.asarray(a), _np.asarray(b), equal_nan=True))
    except Exception:
        return a == b


def _short(x):
    s = repr(x)
    return s if len(s) < 200 else s[:200] + "..."


class Ctx(object):
    """Everything one shard records about the cases it evaluated."""

    def __init__(self, prop_id, tier):
        self.prop_id = prop_id
        self.tier = tier
        self.n = 0
        self.counters = Counter()
        self.nt = set()
        self.samples = []
        self.resid = {}
        self.findings = {}
        self.bucket_hits = Counter()
        self._case = None
        self._buckets = set()
        self._kept = []
        self._case_resid = {}
        self.extra = {}

    # -- per case ---------------------------------------------------------
    def begin(self, case):
        self.n += 1
        self._case = case
        self._buckets = set()
        self._kept = []
        self._case_resid = {}
        self._sample_view = None
        reset_library_state()

    # -- history helpers ----------------------------------------------------
    def keep(self, label, obj):
        """Remember an object the library returned together with a snapshot of its value; verify_kept() (run
        automatically at the end of the case) reports it if later calls changed it (shared buffers, aliasing)."""
        import copy as _copy
        try:
            snap = _copy.deepcopy(obj)
        except Exception:
            return obj
        self._kept.append((label, obj, snap))
        return obj

    # -- purity across the history of the whole process -----------------------
    def later(self, label, fn, *args):
        """Evaluate fn(*args) now and remember (label, fn, private copies of args, snapshot of the result) in a small
        per-process store; every few cases one remembered call is repeated - after everything else the process has done
        in between - and must give the same value: results may depend on the arguments only, never on the history."""
        import copy as _copy
        res = fn(*args)
        store = _LATER
        if len(store) < 64:
            try:
                store.append((label, fn, _copy.deepcopy(args), _copy.deepcopy(res)))
            except Exception:
                pass
        # the caller then does what callers do with a result they own: writes into it in place.  If the library handed out
        # an object it also keeps (a memo, a cached table), the repeated call will return the overwritten values.
        scribble(res)
        return res

    def recheck_later(self):
        import copy as _copy
        global _LATER_TICK
        _LATER_TICK += 1
        if not _LATER or _LATER_TICK % 5:
            return
        i = (_LATER_TICK // 5) % len(_LATER)
        label, fn, args, snap = _LATER[i]
        try:
            again = fn(*_copy.deepcopy(args))
        except Exception as e:
            self.fail("history-dependent-result/" + label, "%s%r raised %r when repeated later in the same process (it returned a value the first time)" % (label, tuple(args), e))
            _LATER.pop(i)
            return
        if not _same_value(again, snap):
            self.fail("history-dependent-result/" + label, "%s%r returns a different value when repeated later in the same process: %r then, %r now" % (
                label, tuple(args), _short(snap), _short(again)))
            _LATER.pop(i)
        elif _LATER_TICK % 40 == 0:
            _LATER.pop(i)          # rotate the store
        self.event("repeated-earlier-call")

    def verify_kept(self):
        import numpy as _np
        def same(a, b):
            if isinstance(a, (list, tuple)):
                return isinstance(b, (list, tuple)) and len(a) == len(b) and all(same(x, y) for x, y in zip(a, b))
            try:
                return bool(_np.array_equal(_np.asarray(a), _np.asarray(b), equal_nan=True))
            except Exception:
                return a == b
        for label, obj, snap in self._kept:
            if not same(obj, snap):
                self.fail("returned-object-changed-later/" + label,
                          "the object returned by %s was modified by a later library call (shared buffer / aliasing)" % label)
        self._kept = []

    def event(self, label, k=1):
        self.counters[label] += k

    def nontrivial(self, flag=True, key=None):
        if flag:
            self.nt.add(case_hash(self._case if key is None else key))
            if len(self.samples) < MAX_SAMPLES and key is None:
                v = getattr(self, "_sample_view", None)
                self.samples.append({"case": self._case, "derived": v} if v is not None else self._case)
        return flag

    def sample(self, obj):
        if len(self.samples) < MAX_SAMPLES:
            self.samples.append(obj)

    def residual(self, name, value, tol):
        """Track the worst residual of a sub-oracle; True when within tol (NaN fails)."""
        try:
            v = float(value)
        except Exception:
            v = float("nan")
        r = self.resid.get(name)
        bad = not (v <= tol)
        if tol > 0 and v == v:
            q = v / tol
            if q > self._case_resid.get(name, -1.0):
                self._case_resid[name] = q
        if r is None:
            self.resid[name] = [v if v == v else float("inf"), tol, 1]
        else:
            r[2] += 1
            if v != v:
                r[0] = float("inf")
            elif v > r[0]:
                r[0] = v
        return not bad

    def near(self, name, value, tol, bucket=None, msg=None):
        ok = self.residual(name, value, tol)
        if not ok:
            self.fail(bucket or name, msg or ("%s: residual %r > tol %g" % (name, value, tol)))
        return ok

    def fail(self, bucket, msg, case=None):
        self._buckets.add(bucket)
        self.bucket_hits[bucket] += 1
        c = self._case if case is None else case
        sz = case_size(c)
        f = self.findings.get(bucket)
        if f is None or sz < f["size"]:
            self.findings[bucket] = {"size": sz, "case": c, "message": str(msg)[:2000]}

    # -- merge ------------------------------------------------------------
    def export(self):
        return {"n": self.n, "counters": dict(self.counters), "nt": self.nt,
                "samples": self.samples, "resid": self.resid, "findings": self.findings,
                "bucket_hits": dict(self.bucket_hits), "extra": self.extra}

    def absorb(self, d):
        self.n += d["n"]
        self.counters.update(d["counters"])
        self.nt |= d["nt"]
        for s in d["samples"]:
            if len(self.samples) < MAX_SAMPLES:
                self.samples.append(s)
        for k, (v, tol, cnt) in d["resid"].items():
            r = self.resid.get(k)
            if r is None:
                self.resid[k] = [v, tol, cnt]
            else:
                r[0] = max(r[0], v)
                r[2] += cnt
        for b, f in d["findings"].items():
            g = self.findings.get(b)
            if g is None or f["size"] < g["size"]:
                self.findings[b] = f
        self.bucket_hits.update(d["bucket_hits"])
        for k, v in d.get("extra", {}).items():
            if isinstance(v, (int, float)) and isinstance(self.extra.get(k, 0), (int, float)):
                self.extra[k] = self.extra.get(k, 0) + v
            else:
                self.extra.setdefault(k, v)


def _in_xfab(tb):
    """True when the exception was raised inside (or below) the code under test."""
    frames = traceback.extract_tb(tb)
    xroot = os.path.join(REPO, "xfab") + os.sep
    for fr in frames:
        if os.path.realpath(fr.filename).startswith(xroot):
            return True, fr
    return False, None


def guarded_check(prop, case, ctx):
    """Run prop.check; an exception that escapes from the code under test on an input the
    property covers is a finding, an exception of the harness itself is a HarnessError."""
    ctx.begin(case)
    k_off = getattr(prop, "SWITCH_OFF", 0)
    if k_off and case_hash(case) % k_off == 0:
        # one case in k runs with the package-wide input-check switch OFF: for the valid inputs these checks use, every
        # result must be the same as with the switch on (an application may run with checks disabled, or under python -O)
        import xfab
        xfab.CHECKS._run_checks = False
        ctx.event("input-checks-switched-off")
    from . import oracles as _O
    _O.LAYOUT_F = (case_hash(case) // 7) % 4 == 0
    if _O.LAYOUT_F:
        ctx.event("column-major-2d-arrays")
    try:
        prop.check(case, ctx)
        ctx.verify_kept()
        ctx.recheck_later()
    except HarnessError:
        raise
    except Exception as e:  # noqa
        inx, _ = _in_xfab(e.__traceback__)
        if inx:
            frames = traceback.extract_tb(e.__traceback__)
            xroot = os.path.join(REPO, "xfab") + os.sep
            last = [f for f in frames if os.path.realpath(f.filename).startswith(xroot)][-1]
            ctx.fail("exception/%s/%s" % (type(e).__name__, last.name),
                     "unexpected %s in %s:%d: %s" % (type(e).__name__, os.path.basename(last.filename), last.lineno, e))
        else:
            raise HarnessError("harness exception on case %s:\n%s" % (
                json.dumps(case, default=str)[:600], "".join(traceback.format_exception(type(e), e, e.__traceback__))))


def guarded_call(ctx, fn, *args):
    """Run one piece of an exhaustive enumeration; an exception escaping from the code under test is a finding
    (the enumeration goes on), an exception of the harness itself is a HarnessError."""
    try:
        return fn(*args)
    except HarnessError:
        raise
    except Exception as e:  # noqa
        inx, _ = _in_xfab(e.__traceback__)
        if not inx:
            raise HarnessError("harness exception in exhaustive part:\n%s" % "".join(traceback.format_exception(type(e), e, e.__traceback__)))
        frames = traceback.extract_tb(e.__traceback__)
        xroot = os.path.join(REPO, "xfab") + os.sep
        last = [f for f in frames if os.path.realpath(f.filename).startswith(xroot)][-1]
        ctx.fail("exception/%s/%s" % (type(e).__name__, last.name),
                 "unexpected %s in %s:%d: %s" % (type(e).__name__, os.path.basename(last.filename), last.lineno, e))
        return None


class _Found(Exception):
    pass


def run_hypothesis(prop, ctx, unit, n_examples, seed, raise_on=None, shrink_budget=3000):
    """Collect pass (raise_on None): evaluate n_examples generated cases, never stop early.
    Shrink pass (raise_on = bucket): same seed, raise when the bucket occurs and let
    Hypothesis shrink; returns the smallest failing case seen (or None)."""
    import hypothesis
    from hypothesis import given, settings, HealthCheck, Phase
    strat = prop.strategy(ctx.tier, unit)
    # thorough tier: targeted property-based testing - Hypothesis hill-climbs towards inputs that maximise the
    # residual/tolerance ratio of (up to six of) the property's sub-oracles, i.e. it searches for the worst case
    # (only in the small dedicated units named "target-<i>": the optimiser's running time is hard to predict - some shards
    #  of a 60 000-example targeted run took ten times longer than the others - so the bulk of the budget is plain generation)
    targeting = (raise_on is None and ctx.tier == "thorough" and getattr(prop, "TARGETED", False)
                 and isinstance(unit, str) and unit.startswith("target-"))
    phases = (Phase.generate,) if raise_on is None else (Phase.generate, Phase.shrink)
    if targeting:
        phases = (Phase.generate, Phase.target)
    best = {"case": None, "calls_after": 0}

    @hypothesis.seed(seed)
    @settings(max_examples=n_examples, database=None, deadline=None, derandomize=False,
              report_multiple_bugs=False, suppress_health_check=list(HealthCheck),
              phases=phases, print_blob=False, verbosity=hypothesis.Verbosity.quiet)
    @given(strat)
    def run(case):
        if raise_on is not None and best["case"] is not None:
            best["calls_after"] += 1
            if best["calls_after"] > shrink_budget:
                return
        guarded_check(prop, case, ctx)
        if targeting:
            for label in sorted(ctx._case_resid)[:6]:
                q = ctx._case_resid[label]
                if q == q and q != float("inf"):
                    hypothesis.target(min(q, 1e6), label=label)
        if raise_on is not None and raise_on in ctx._buckets:
            best["case"] = case
            raise _Found()

    try:
        run()
    except _Found:
        pass
    except HarnessError:
        raise
    except Exception as e:
        # Hypothesis wraps flaky / budget conditions; anything else is a harness problem
        name = type(e).__name__
        if raise_on is not None and name in ("Flaky", "FlakyFailure", "FlakyReplay", "ExceptionGroup", "BaseExceptionGroup"):
            pass
        elif name == "Unsatisfiable":
            raise HarnessError("strategy unsatisfiable for %s unit %r" % (prop.ID, unit))
        else:
            raise
    return best["case"]


def _worker(args):
    prop_name, tier, unit, n_examples, seed = args
    try:
        import_xfab()
        prop = importlib.import_module("props." + prop_name)
        ctx = Ctx(prop.ID, tier)
        t0 = time.time()
        if hasattr(prop, "run_unit"):
            prop.run_unit(ctx, tier, unit, n_examples, seed)
        else:
            run_hypothesis(prop, ctx, unit, n_examples, seed)
        d = ctx.export()
        d["unit"] = unit
        d["seed"] = seed
        d["wall"] = time.time() - t0
        return ("ok", d)
    except HarnessError as e:
        return ("harness", str(e))
    except Exception as e:
        return ("harness", "".join(traceback.format_exception(type(e), e, e.__traceback__)))


def scribble(x, depth=0):
    """overwrite a returned object in place (every writable ndarray / list element becomes -7): a result belongs to the
    caller, who may do this at any time; later calls must not be affected"""
    import numpy as _np
    try:
        if isinstance(x, _np.ndarray):
            if x.flags.writeable and x.size and x.dtype.kind in "fiuc":
                x[...] = -7
        elif isinstance(x, list) and depth < 4:
            for i in range(len(x)):
                if isinstance(x[i], (list, tuple, _np.ndarray)):
                    scribble(x[i], depth + 1)
                elif isinstance(x[i], (int, float)) and not isinstance(x[i], bool):
                    x[i] = -7
        elif isinstance(x, tuple) and depth < 4:
            for e in x:
                scribble(e, depth + 1)
    except Exception:
        pass


def load_known():
    p = os.path.join(VERIF, "known_findings.json")
    if not os.path.exists(p):
        return {}
    d = json.load(open(p))
    out = {}
    for f in d.get("findings", []):
        if f.get("status") == "known":
            out[(f["property"], f["bucket"])] = f
    return out


def write_replay(prop_id, bucket, finding, seed, tier):
    d = os.path.join(VERIF, "replays")
    os.makedirs(d, exist_ok=True)
    tag = "".join(ch if ch.isalnum() or ch in "-_." else "_" for ch in bucket)[:60]
    h = "%016x" % case_hash(finding["case"])
    path = os.path.join(d, "%s-%s-%s.json" % (prop_id, tag, h[:10]))
    with open(path, "w") as fh:
        json.dump({"property": prop_id, "bucket": bucket, "message": finding["message"],
                   "case": finding["case"], "seed": seed, "tier": tier,
                   "unit": finding.get("unit")}, fh, indent=1, default=str)
    return os.path.relpath(path, VERIF)


def _evidence_dir():
    """evidence/ describes runs against /repo itself; a run pointed at a scratch copy through XFAB_VERIF_REPO (seeded
    changes, mutants, reverted fixes) writes to evidence-scratch/ (git-ignored) so that it can never overwrite it"""
    repo = os.path.realpath(os.environ.get("XFAB_VERIF_REPO", "/repo"))
    return os.path.join(VERIF, "evidence" if repo == os.path.realpath("/repo") else "evidence-scratch")


def write_evidence(prop, ctx, tier, seed, wall, n_viol, known_hits, extra=None):
    os.makedirs(_evidence_dir(), exist_ok=True)
    resid = {k: {"worst": (v[0] if v[0] != float("inf") else "nan/inf"), "tol": v[1], "n": v[2]}
             for k, v in sorted(ctx.resid.items())}
    cov = {
        "evaluations": int(ctx.n),
        "distinct_nontrivial": int(len(ctx.nt)),
        "rule": prop.RULE,
        "samples": ctx.samples[:MAX_SAMPLES] or [],
        "classes": dict(sorted(ctx.counters.items())),
        "worst_residuals": resid,
        "known_finding_hits": known_hits,
        "buckets_seen": dict(ctx.bucket_hits),
        "exhaustive": bool(getattr(prop, "EXHAUSTIVE", False)),
    }
    cov.update(ctx.extra)
    if extra:
        cov.update(extra)
    ev = {"property_id": prop.ID, "tier": tier, "seed": int(seed), "level": "exploration",
          "coverage": cov, "assumptions": list(getattr(prop, "ASSUMPTIONS", [])),
          "wall_s": round(wall, 2), "violations": int(n_viol)}
    path = os.path.join(_evidence_dir(), prop.ID + ".json")
    tmp = path + ".tmp"
    with open(tmp, "w") as fh:
        json.dump(ev, fh, indent=1, default=str)
    os.replace(tmp, path)


def regress_cases(prop_id):
    out = []
    for p in sorted(glob.glob(os.path.join(VERIF, "regress", prop_id, "*.json"))):
        d = json.load(open(p))
        out.append((os.path.relpath(p, VERIF), d))
    return out


def main_run(prop_name, tier, seed, nproc=16, replay=None):
    """Returns the process exit code."""
    t0 = time.time()
    import_xfab()
    prop = importlib.import_module("props." + prop_name)
    known = load_known()
    total = Ctx(prop.ID, tier)

    if replay is not None:
        d = json.load(open(replay))
        guarded_check(prop, d["case"], total)
        return finish(prop, total, tier, seed, t0, known, replay_mode=True)

    # 1. generated part (first, so that the workers fork from a parent that has not exercised the library yet)
    units = prop.units(tier)          # list of (unit, n_examples)
    jobs = [(prop_name, tier, u, n, derive_seed(seed, prop.ID, u)) for (u, n) in units]
    results = []
    if len(jobs) <= 1 or nproc <= 1:
        results = [_worker(j) for j in jobs]
    else:
        import multiprocessing as mp
        ctxm = mp.get_context("fork")
        # wall-clock guard against a hang inside the library (e.g. a scan loop that no longer terminates): a budget hit is
        # "inconclusive" (exit 2), never reported as a violation
        budget = float(os.environ.get("VERIF_TIMEOUT_S", "3600" if tier == "quick" else "43200"))
        with ctxm.Pool(min(nproc, len(jobs))) as pool:
            ar = pool.map_async(_worker, jobs, chunksize=max(1, len(jobs) // (nproc * 4)))
            try:
                results = ar.get(timeout=budget)
            except mp.TimeoutError:
                pool.terminate()
                sys.stderr.write("HARNESS-ERROR property=%s\ninconclusive: generated part exceeded the %.0f s wall-clock budget (VERIF_TIMEOUT_S)\n" % (prop.ID, budget))
                return 2
    for status, d in results:
        if status != "ok":
            sys.stderr.write("HARNESS-ERROR property=%s\n%s\n" % (prop.ID, d))
            return 2
        for b, f in d["findings"].items():
            f["unit"] = d["unit"]
            f["shard_seed"] = d["seed"]
        total.absorb(d)
    # 2. committed regression inputs (repaired defects and known findings), without Hypothesis
    for path, d in regress_cases(prop.ID):
        guarded_check(prop, d["case"], total)
        total.event("regress-cases")

    # 3. exhaustive part, if the property has a finite sub-domain
    if hasattr(prop, "exhaustive"):
        prop.exhaustive(total, tier)

    total.extra["units"] = len(jobs)
    return finish(prop, total, tier, seed, t0, known, jobs=jobs)


def finish(prop, total, tier, seed, t0, known, jobs=None, replay_mode=False):
    n_viol = 0
    known_hits = {}
    lines = []
    for bucket in sorted(total.findings):
        f = total.findings[bucket]
        kf = known.get((prop.ID, bucket))
        if kf is not None:
            known_hits[bucket] = int(total.bucket_hits[bucket])
            if os.environ.get("VERIF_DUMP_KNOWN"):
                write_replay(prop.ID, bucket, f, seed, tier)
            lines.append("KNOWN-FINDING: property=%s %s [%s; hit %d time(s) in this run]" % (
                prop.ID, kf["what"], bucket, total.bucket_hits[bucket]))
            continue
        n_viol += 1
        # shrink in the thorough tier (bounded); never lose the collected concrete case
        if tier == "thorough" and not replay_mode and f.get("unit") is not None and not hasattr(prop, "run_unit"):
            try:
                nex = dict(prop.units(tier)).get(f["unit"]) if not isinstance(f["unit"], list) else None
                if nex is None:
                    nex = [n for (u, n) in prop.units(tier) if u == f["unit"]][0]
                c2 = Ctx(prop.ID, tier)
                small = run_hypothesis(prop, c2, f["unit"], nex, f["shard_seed"], raise_on=bucket)
                if small is not None and case_size(small) <= f["size"]:
                    f = dict(f, case=small, size=case_size(small),
                             message=c2.findings[bucket]["message"] if bucket in c2.findings else f["message"])
            except Exception as e:  # shrinking is best effort
                sys.stderr.write("note: shrinking %s failed: %r\n" % (bucket, e))
        if hasattr(prop, "minimize") and not replay_mode:
            try:
                small = prop.minimize(f["case"], bucket)
                if case_size(small) < f["size"]:
                    f = dict(f, case=small, size=case_size(small))
            except Exception as e:
                sys.stderr.write("note: minimising %s failed: %r\n" % (bucket, e))
        path = write_replay(prop.ID, bucket, f, seed, tier)
        lines.append("VIOLATION property=%s replay=%s" % (prop.ID, path))
        sys.stderr.write("  bucket=%s hits=%d: %s\n" % (bucket, total.bucket_hits[bucket], f["message"][:500]))
    wall = time.time() - t0
    if not replay_mode:
        write_evidence(prop, total, tier, seed, wall, n_viol, known_hits)
    for l in lines:
        print(l)
    print("%s tier=%s seed=%d evaluations=%d distinct_nontrivial=%d violations=%d known=%d wall=%.1fs" % (
        prop.ID, tier, seed, total.n, len(total.nt), n_viol, len(known_hits), wall))
    sys.stdout.flush()
    return 1 if n_viol else 0
