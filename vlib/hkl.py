"""Shared machinery of C05 / C06: case construction (conforming cell, gap-constructed shell),
the reflection oracle, the Le Page-Gabe scan model used to recognise known finding K1."""
import math, re
import numpy as np
from hypothesis import strategies as st
from . import strat as S, oracles as O, groups as GR

K1_CLASSES = {("-1", "standard"), ("2/m", "standard"), ("-3", "rhombohedral"), ("-3m", "rhombohedral")}

# segment tables of the documented scan (origin, v1, v2, v3) for the four classes K1 concerns
SEG = {("-1", "standard"): [[[0, 0, 0], [1, 0, 0], [0, 1, 0], [0, 0, 1]], [[-1, 0, 1], [-1, 0, 0], [0, 1, 0], [0, 0, 1]],
                            [[-1, 1, 0], [-1, 0, 0], [0, 1, 0], [0, 0, -1]], [[0, 1, -1], [1, 0, 0], [0, 1, 0], [0, 0, -1]]],
       ("2/m", "standard"): [[[0, 0, 0], [1, 0, 0], [0, 1, 0], [0, 0, 1]], [[-1, 0, 1], [-1, 0, 0], [0, 1, 0], [0, 0, 1]]],
       ("-3m", "rhombohedral"): [[[0, 0, 0], [1, 0, 0], [1, 0, -1], [1, 1, 1]], [[1, 1, 0], [1, 0, -1], [0, 0, -1], [1, 1, 1]]],
       ("-3", "rhombohedral"): [[[0, 0, 0], [1, 0, 0], [1, 0, -1], [1, 1, 1]], [[1, 1, 0], [1, 0, -1], [0, 0, -1], [1, 1, 1]],
                                [[0, -1, -2], [1, 0, 0], [1, 0, -1], [-1, -1, -1]], [[1, 0, -2], [1, 0, -1], [0, 0, -1], [-1, -1, -1]]]}


def scan_model(Gs, segs, M, limit=200000):
    """Points visited by the documented scan: advance along v1, then v2, then v3; a line stops at the
    first point whose stl exceeds M (line starts beyond M stop the enclosing loop)."""
    def stl(p):
        return 0.5 * math.sqrt(max(float(p @ Gs @ p), 0.0))
    V = set()
    n = 0
    for o, v1, v2, v3 in np.array(segs, float):
        k = 0
        while True:
            pk = o + k * v3
            if k > 0 and stl(pk) > M:
                break
            j = 0
            while True:
                pj = pk + j * v2
                if j > 0 and stl(pj) > M:
                    break
                i = 0
                while True:
                    p = pj + i * v1
                    if i > 0 and stl(p) > M:
                        break
                    V.add((int(p[0]), int(p[1]), int(p[2])))
                    n += 1
                    if n > limit:
                        return V
                    i += 1
                j += 1
            k += 1
    return V


def case_strategy(unit):
    return st.fixed_dictionaries({
        "setting": st.just(unit),
        "abc": st.tuples(S.fl(2.5, 12), S.fl(2.5, 12), S.fl(2.5, 12)).map(list),
        "ang": st.tuples(S.fl(40, 115), S.fl(60, 120), S.fl(-1, 1)).map(list),
        "tri_alpha": S.fl(55, 125), "orth": st.integers(0, 3).map(lambda i: i == 0),
        "equal_axes": st.integers(0, 5).map(lambda i: i == 0), "special_angle": st.sampled_from([None, None, None, 60.0, 109.47122063449069, 90.0, 120.0]),
        "gap": S.fl(0, 1), "smin_gap": st.one_of(st.none(), S.fl(0, 1)),
        "edge": st.one_of(st.none(), st.none(), st.tuples(st.sampled_from(["below-next", "above-this"]), S.logfl(2e-9, 1e-6)).map(list)),
        "cell_scale": st.sampled_from([1.0, 1.0, 1.0, 3.0, 12.0]), "alias": st.integers(0, 5),
        "near_special": st.one_of(st.none(), st.none(), st.none(), st.tuples(S.logfl(1e-8, 1e-2), st.sampled_from([-1.0, 1.0])).map(lambda t: t[0] * t[1])),
        "byname": st.booleans(), "upper": st.booleans(), "blank": st.booleans(), "name_only": st.booleans(),
        "cell_as": st.sampled_from(["list", "list", "array", "list", "array", "int-list", "int-array"]),   # (a tuple cell makes the debug logging of six Laue classes raise TypeError: observed, outside the documented list/array input, not claimed)
        # extremes of the domain: one axis 20..200 times longer or shorter than the others (needles / plates: Miller indices
        # of 100-250 along the long axis), and shells holding many thousands of reflections instead of up to 1500
        "aspect": st.one_of(st.none(), st.none(), st.none(), st.none(), st.tuples(st.integers(0, 2), S.logfl(20, 200), st.booleans()).map(list)),
        "max_points": st.sampled_from([None] * 18 + [12000, 40000]),
        "npseed": st.integers(0, 2 ** 31 - 1), "npseed2": st.integers(0, 2 ** 31 - 1),
        "mod": st.sampled_from(["tools", "laue"]), "pick": S.fl(0, 1)})


class Built(object):
    pass


_HOLD = [1.0, 1.0, 1.0, 90.0, 90.0, 90.0]


def build(case, max_points=1500):
    """Deterministically turn the drawn numbers into (group, cell, shell, oracle set)."""
    no, ch = GR.SETTINGS[case["setting"]]
    g = GR.group(no, ch)
    a, b, c = [x * case.get("cell_scale", 1.0) for x in case["abc"]]      # up to ~150 A: small sin(theta)/lambda values
    asp = case.get("aspect")
    if asp is not None:
        ax = [a, b, c]
        ax[asp[0]] = ax[asp[0]] * asp[1] if asp[2] else max(0.5, ax[asp[0]] / asp[1] * 4.0)
        a, b, c = ax
    if case.get("equal_axes"):          # pseudo-symmetric metric: edges exactly equal although the system does not require it
        b = c = a
    ang1 = case["tri_alpha"] if g.crystal_system == "triclinic" and ch != "rhombohedral" else case["ang"][0]
    ang2 = case["ang"][1]
    sa = case.get("special_angle")
    if sa is not None:
        if ch == "rhombohedral" and sa < 119.0:
            ang1 = sa                      # alpha = 60 (fcc primitive), 109.47 (bcc primitive), 90
        elif g.crystal_system == "monoclinic" and sa in (60.0, 120.0, 90.0):
            ang2 = sa
    ns = case.get("near_special")
    if ns is not None and not case["orth"]:
        # a free angle a hair away from an ideal value (pseudo-symmetric cell): 1e-8 .. 1e-2 degrees off 90 / 60 / 120
        if ch == "rhombohedral":
            ang1 = (60.0 if case["alias"] % 2 else 90.0) + ns
        elif g.crystal_system == "monoclinic":
            ang2 = (90.0 if case["alias"] % 3 else 120.0) + ns
        elif g.crystal_system == "triclinic":
            ang1, ang2 = 90.0 + ns, 90.0 - 0.7 * ns
    cell = GR.conforming_cell(g, a, b, c, ang1, ang2, case["ang"][2], orth=case["orth"])
    if ns is not None and not case["orth"] and g.crystal_system == "triclinic" and ch != "rhombohedral":
        cell = [cell[0], cell[1], cell[2], 90.0 + ns, 90.0 - 0.7 * ns, 90.0 + 0.4 * ns]
    cell = [float(x) + 0.0 for x in cell]
    how = case.get("cell_as", "list")
    cell, typed_cell = S.whole_number_variant(cell, how if how.startswith("int") else ("float-array" if how == "array" else "float-list"))
    G, Gs, V = O.metric(cell)
    scale = 1.1 if (g.Laue == "-3" and ch == "rhombohedral") else 1.0
    if case.get("max_points"):
        max_points = max(max_points, case["max_points"])
    cap = min(0.6 if max_points <= 1500 else 1.5, 0.5 * (max_points * 3 / (4 * math.pi * V)) ** (1.0 / 3))
    H, s = GR.lattice_points(cell, cap * 1.1 + 1e-9)
    us = np.unique(np.concatenate([s, s / scale])) if scale != 1.0 else np.unique(s)
    us = us[us <= cap]
    B = Built()
    B.g, B.cell, B.Gs, B.V, B.scale = g, cell, Gs, V, scale
    B.ok = False
    if len(us) < 3:
        return B
    gaps = np.where(np.diff(us) / us[1:] > 4e-9)[0]
    if len(gaps) == 0:
        return B
    k = gaps[min(len(gaps) - 1, int(case["gap"] * len(gaps)))]
    smax = 0.5 * (us[k] + us[k + 1])
    edge = case.get("edge")
    if edge is not None and (us[k + 1] - us[k]) / us[k + 1] > 4 * edge[1]:
        # bound placed a relative distance delta (>= 2e-9, the property's clearance is 1e-9) from a lattice value instead
        # of mid-gap: just below the next value (which must stay excluded) or just above this one (which must be included)
        smax = us[k + 1] * (1 - edge[1]) if edge[0] == "below-next" else us[k] * (1 + edge[1])
        B.edge = edge[0]
    else:
        B.edge = None
    smin = 0.0 if int(case["gap"] * 1e6) % 5 else -0.25      # "no lower limit" written as 0 or as a negative number
    if case["smin_gap"] is not None:
        kk = gaps[gaps <= k]
        j = kk[min(len(kk) - 1, int(case["smin_gap"] * len(kk)))]
        if j < k:
            smin = 0.5 * (us[j] + us[j + 1])
    keep = (s > smin) & (s <= smax)
    Hs, ss = H[keep], s[keep]
    ext = g.extinct(Hs)
    B.smin, B.smax = float(smin), float(smax)
    B.H_shell, B.s_shell, B.ext = Hs, ss, ext
    B.allowed = set(map(tuple, Hs[~ext].tolist()))
    B.stl_of = dict(zip(map(tuple, Hs.tolist()), ss.tolist()))
    B.laue = g.laue_ops()
    B.ok = True
    al = GR.aliases(no, ch)
    name = al[case.get("alias", 0) % len(al)] if case.get("alias", 0) else g.name      # own name or any alias key
    if case["upper"]:
        name = name.upper()
    if case["blank"]:
        name = " ".join(name)
    ch = GR.fresh(ch)
    name = GR.fresh(name)
    if case["byname"]:
        # the setting of an R group can be selected by the trailing r of the name alone (cell_choice left at its default)
        plain_for_rhomb = ch == "rhombohedral" and re.sub(r"\s+", "", name).lower()[-1] != "r"
        B.kw = dict(sgname=name) if (case.get("name_only") and not plain_for_rhomb) else dict(sgname=name, cell_choice=ch)
    else:
        B.kw = dict(sgno=no, cell_choice=ch)
    # how the caller holds the cell: list, tuple, or one float ndarray (read-only: the generators must not modify it)
    B.cell_arg = tuple(cell) if how == "tuple" else typed_cell
    if how == "list" and isinstance(typed_cell, list) and int(case["pick"] * 1e6) % 2 == 0:
        # one list object per process, refilled in place for every case that takes this branch (a refinement loop does this)
        _HOLD[:] = typed_cell
        B.cell_arg = _HOLD
    B.oblique = any(abs(x - 90.0) > 1e-9 for x in cell[3:6]) and g.crystal_system in ("triclinic", "monoclinic", "trigonal") and \
        (ch == "rhombohedral" or g.crystal_system in ("triclinic", "monoclinic"))
    return B


def classify(case, B, ctx):
    """generator statistics for the evidence file: which of the size / typing classes this case belongs to"""
    n = len(B.allowed)
    ctx.event("allowed-reflections:" + ("<=100" if n <= 100 else "<=1000" if n <= 1000 else "<=5000" if n <= 5000 else ">5000"))
    if case.get("aspect") is not None:
        ctx.event("needle-or-plate-cell (one axis 20-200x the others)")
    if case.get("max_points"):
        ctx.event("shell-cap-lifted-to-%d-points" % case["max_points"])
    if len(B.allowed) and max(max(abs(x) for x in h) for h in B.allowed) >= 100:
        ctx.event("indices>=100-in-shell")
    if not isinstance(B.cell_arg, tuple) and all(isinstance(x, (int, np.integer)) for x in (B.cell_arg.tolist() if hasattr(B.cell_arg, "tolist") else B.cell_arg)):
        ctx.event("integer-typed-cell")


def rows_to_int(A):
    A = np.asarray(A, float)
    if A.ndim != 2 or A.shape[1] < 3:
        return None, False
    Ai = np.round(A[:, :3]).astype(np.int64)
    integral = bool(np.array_equal(A[:, :3], Ai))
    return Ai, integral


def orbit_keys(h, laue):
    return set(map(tuple, (np.asarray(h, np.int64) @ laue).tolist()))


def k1_explains(B, missing):
    """True for every missing reflection whose whole Laue orbit is never visited by the scan model."""
    g = B.g
    key = (g.Laue, g.choice)
    if key not in K1_CLASSES:
        return False, list(missing)[:3]
    Vs = scan_model(B.Gs, SEG[key], B.smax * B.scale)
    un = []
    for h in missing:
        if orbit_keys(h, B.laue) & Vs:
            un.append(h)
    return len(un) == 0, un[:3]


def k1_bucket(B):
    return "K1-scan-early-exit/%s/%s" % (B.g.Laue, B.g.choice)
