"""Shared Hypothesis strategies.  Everything they produce is plain JSON-able data
(lists / dicts of floats, ints, strings) so a failing case can be stored and replayed
without Hypothesis.  Matrices are built from the data inside the check."""
import math
import numpy as np
from hypothesis import strategies as st
from . import oracles as O

floats = st.floats


def fl(lo, hi):
    return st.floats(min_value=lo, max_value=hi, allow_nan=False, allow_infinity=False, allow_subnormal=False)


def logfl(lo, hi):
    return fl(math.log(lo), math.log(hi)).map(math.exp)


# --------------------------------------------------------------------------- cells
def _general_cell(lens, al, be, u, gmin=0.02):
    """alpha, beta and u in [-1,1] parametrise exactly the region Gram >= gmin."""
    sa, sb = math.sin(math.radians(al)), math.sin(math.radians(be))
    ca, cb = math.cos(math.radians(al)), math.cos(math.radians(be))
    disc = sa * sa * sb * sb - gmin
    if disc <= 0:
        # pull the two angles towards 90 until the region is non-empty (constructive, no rejection)
        while disc <= 1e-6:
            al = 90 + (al - 90) * 0.8
            be = 90 + (be - 90) * 0.8
            sa, sb = math.sin(math.radians(al)), math.sin(math.radians(be))
            ca, cb = math.cos(math.radians(al)), math.cos(math.radians(be))
            disc = sa * sa * sb * sb - gmin
    cg = ca * cb + u * math.sqrt(disc) * (1 - 1e-9)
    cg = max(-1.0, min(1.0, cg))
    ga = math.degrees(math.acos(cg))
    return [lens[0], lens[1], lens[2], al, be, ga]


def cells(lo=0.5, hi=500.0, gmin=0.02):
    """Valid cells over the whole domain 'Gram determinant >= gmin', mixed with the
    conforming families and strongly oblique cells."""
    L = st.tuples(logfl(lo, hi), logfl(lo, hi), logfl(lo, hi))
    general = st.builds(_general_cell, L, fl(1.0, 179.0), fl(1.0, 179.0), fl(-1.0, 1.0), st.just(gmin))
    boundary = st.builds(_general_cell, L, fl(1.0, 179.0), fl(1.0, 179.0), st.sampled_from([-1.0, 1.0]), st.just(gmin))
    oblique = st.builds(_general_cell, L, st.one_of(fl(40, 70), fl(110, 140)), st.one_of(fl(40, 70), fl(110, 140)),
                        fl(-1.0, 1.0), st.just(gmin))
    a = logfl(lo, hi)
    fam = st.one_of(
        st.builds(lambda x: [x, x, x, 90.0, 90.0, 90.0], a),
        st.builds(lambda x, z: [x, x, z, 90.0, 90.0, 90.0], a, a),
        st.builds(lambda x, y, z: [x, y, z, 90.0, 90.0, 90.0], a, a, a),
        st.builds(lambda x, z: [x, x, z, 90.0, 90.0, 120.0], a, a),
        st.builds(lambda x, al: [x, x, x, al, al, al], a, fl(25.0, 115.0)),
        st.builds(lambda x, y, z, be: [x, y, z, 90.0, be, 90.0], a, a, a, fl(50.0, 130.0)),
    )
    # angles a hair away from the special values 90 / 120 / 60 (pseudo-symmetric cells): 1e-9 .. 1e-1 degrees off
    off = st.tuples(logfl(1e-9, 1e-1), st.sampled_from([-1.0, 1.0])).map(lambda t: t[0] * t[1])
    near = st.builds(lambda x, y, z, d1, d2, d3, g: [x, y, z, 90.0 + d1, 90.0 + d2, g + d3], a, a, a, off, off, off,
                     st.sampled_from([90.0, 90.0, 120.0, 60.0]))
    # exactly special angles (measure-zero but perfectly legitimate cells) and exactly equal edge lengths with generic angles
    sp = st.sampled_from([60.0, 90.0, 120.0, 45.0, 135.0, 90.0])
    exact = st.builds(lambda x, y, z, a1, a2, a3, eq: ([x, x, x] if eq == 2 else [x, x, z] if eq == 1 else [x, y, z]) + [a1, a2, a3],
                      a, a, a, sp, sp, sp, st.integers(0, 2)).filter(lambda c: O.gram_det(c) >= gmin)
    ties = st.builds(lambda c, eq: ([c[0]] * 3 if eq else [c[0], c[0], c[2]]) + c[3:], general, st.booleans())
    # the angle patterns of the symmetric families with edges that do NOT follow the family (a != b with gamma = 120,
    # three equal angles with unequal edges, ...): perfectly valid cells on which a shortcut written for the family fails
    pseudo = st.one_of(
        st.builds(lambda x, y, z: [x, y, z, 90.0, 90.0, 120.0], a, a, a),
        st.builds(lambda x, y, z: [x, y, z, 90.0, 90.0, 60.0], a, a, a),
        st.builds(lambda x, y, z, al: [x, y, z, al, al, al], a, a, a, fl(25.0, 115.0)),
        st.builds(lambda x, y, z: [x, y, z, 90.0, 120.0, 90.0], a, a, a),
        st.builds(lambda x, y, z: [x, y, z, 120.0, 90.0, 90.0], a, a, a))
    # cells whose six parameters are whole numbers and are TYPED as Python ints (cell = [3, 4, 5, 80, 95, 100], the way
    # cells are written in scripts and tests): every function must treat them like the equal float values
    ilo, ihi = max(1, int(math.ceil(lo))), max(2, min(40, int(hi)))
    il = st.integers(ilo, ihi)
    integral = st.one_of(
        st.builds(_integral_cell, il, il, il, st.integers(50, 130), st.integers(50, 130), fl(0.0, 1.0), st.just(gmin)),
        st.builds(lambda x, y, z: [x, y, z, 90, 90, 90], il, il, il),
        st.builds(lambda x, z: [x, x, z, 90, 90, 120], il, il),
        st.builds(lambda x, y, z, be: [x, y, z, 90, be, 90], il, il, il, st.integers(60, 125)))
    return st.one_of(general, general, oblique, oblique, boundary, fam, near, exact, ties, pseudo, integral)


def _integral_cell(x, y, z, al, be, t, gmin):
    """whole-number cell: gamma is the integer picked by t from the interval allowed by Gram >= gmin (+ margin)"""
    ca, cb, sa, sb = math.cos(math.radians(al)), math.cos(math.radians(be)), math.sin(math.radians(al)), math.sin(math.radians(be))
    w = math.sqrt(max(sa * sa * sb * sb - (gmin + 0.01), 0.0))
    g_lo = math.degrees(math.acos(min(1.0, ca * cb + w)))
    g_hi = math.degrees(math.acos(max(-1.0, ca * cb - w)))
    k_lo, k_hi = int(math.ceil(g_lo)), int(math.floor(g_hi))
    ga = 90 if k_hi < k_lo else min(k_hi, k_lo + int(t * (k_hi - k_lo + 1)))
    c = [x, y, z, al, be, ga]
    return c if O.gram_det(c) >= gmin else [x, y, z, 90, 90, 90]


def whole_number_variant(cell, how):
    """(cell values as floats, object handed to the library).  how = 'int-list' / 'int-array': the six parameters are rounded
    to whole numbers (the rounded cell conforms to the same crystal system: equal values stay equal, 90 and 120 stay) and
    typed as Python ints / an integer ndarray, provided the rounded cell is still comfortably valid; 'float-array': a
    read-only float ndarray; otherwise a float list."""
    if how in ("int-list", "int-array"):
        r = [int(round(x)) for x in cell]
        if min(r[:3]) >= 1 and O.gram_det(r) >= 0.05:
            return [float(x) for x in r], cell_arg(r, how == "int-array")
    return list(cell), cell_arg(cell, how == "float-array")


def is_int_typed(cell):
    return all(isinstance(x, int) and not isinstance(x, bool) for x in cell)


def cell_arg(raw, as_array=False):
    """The object handed to the library for a generated cell: integer-typed cells stay integer-typed (list of ints or an
    integer ndarray), all others are float lists / float arrays; arrays are read-only."""
    if is_int_typed(raw):
        if not as_array:
            return [int(x) for x in raw]
        a = np.array(raw, dtype=int)
        a.setflags(write=False)
        return a
    return O.ro(np.array(raw, float)) if as_array else [float(x) + 0.0 for x in raw]


def perturbed(cell, rel):
    """a cell differing from `cell` by a relative amount rel in every parameter (successive near-identical inputs)"""
    return [cell[0] * (1 + rel), cell[1] * (1 - rel), cell[2] * (1 + 0.5 * rel), cell[3] * (1 + 0.3 * rel), cell[4] * (1 - 0.2 * rel), cell[5] * (1 + 0.1 * rel)]


def is_oblique(cell, deg=5.0):
    return sum(1 for x in cell[3:6] if abs(x - 90.0) > deg) >= 2


# --------------------------------------------------------------------------- rotations
# a rotation is described as data: {"kind":..., ...}; build_rotation turns it into a matrix
def rot_specs(near_gimbal_weight=2):
    quat = st.tuples(fl(-1, 1), fl(-1, 1), fl(-1, 1), fl(-1, 1)).filter(
        lambda q: sum(x * x for x in q) > 1e-6).map(lambda q: {"kind": "quat", "q": list(q)})
    axis = st.integers(0, 23).map(lambda i: {"kind": "axis", "i": i})
    ang = fl(0.0, 2 * math.pi)
    eul = st.tuples(ang, fl(0.0, math.pi), ang).map(lambda e: {"kind": "euler", "e": list(e)})
    # PHI exactly 0 / pi, or log-uniformly 1e-12..1e-3 away from them
    d = st.one_of(st.just(0.0), logfl(1e-12, 1e-3))
    gim = st.tuples(ang, d, ang, st.booleans()).map(
        lambda t: {"kind": "euler", "e": [t[0], (math.pi - t[1]) if t[3] else t[1], t[2]]})
    prod = st.tuples(st.integers(0, 23), st.one_of(gim, eul)).map(lambda t: {"kind": "prod", "i": t[0], "b": t[1]})
    # Euler angles that are exact multiples of pi/2 (and 2 pi), alone or mixed with generic ones
    q = st.sampled_from([0.0, math.pi / 2, math.pi, 3 * math.pi / 2, 2 * math.pi])
    speul = st.tuples(st.one_of(q, ang), st.sampled_from([0.0, math.pi / 2, math.pi]), st.one_of(q, ang)).map(lambda e: {"kind": "euler", "e": list(e)})
    # rotations by exactly 180, 120, 90 degrees about generic axes are covered by quat with special components
    spq = st.tuples(st.sampled_from([0.0, 1.0, -1.0, 0.5]), st.sampled_from([0.0, 1.0, -1.0, 0.5]), st.sampled_from([0.0, 1.0, 0.5]),
                    st.sampled_from([0.0, 1.0, -0.5])).filter(lambda t: sum(x * x for x in t) > 0.1).map(lambda t: {"kind": "quat", "q": list(t)})
    # a generic axis with a rotation angle at / a hair away from the ends: almost the identity, almost a half turn
    # (1e-12 .. 1e-3 rad off), or exactly 0 / pi
    near_end = st.tuples(st.sampled_from([0.0, math.pi]), st.one_of(st.just(0.0), logfl(1e-12, 1e-3)), st.sampled_from([-1.0, 1.0])).map(lambda t: t[0] + t[1] * t[2])
    aa = st.tuples(fl(-1, 1), fl(-1, 1), fl(-1, 1), near_end).filter(lambda t: t[0] * t[0] + t[1] * t[1] + t[2] * t[2] > 1e-3).map(
        lambda t: {"kind": "aa", "axis": [t[0], t[1], t[2]], "angle": t[3]})
    return st.one_of(*([quat, eul, axis, prod, speul, spq, aa] + [gim] * near_gimbal_weight))


def build_rotation(spec):
    k = spec["kind"]
    if k == "quat":
        return O.quat_to_mat(spec["q"])
    if k == "axis":
        return O.axis_aligned()[spec["i"]].copy()
    if k == "euler":
        e = spec["e"]
        return O.euler_ref(e[0], e[1], e[2])
    if k == "prod":
        return O.axis_aligned()[spec["i"]] @ build_rotation(spec["b"])
    if k == "aa":
        return O.axis_angle(spec["axis"], spec["angle"])
    raise ValueError(k)


def rot_is_axis(U, tol=1e-12):
    return bool(np.all(np.minimum(np.abs(U), np.abs(np.abs(U) - 1)) < tol))


def hkls(box, allow_zero=False, big=None):
    """integer triples in [-box, box]^3; with big=N one case in four takes its indices from [-N, N]^3 (high orders)"""
    t = st.tuples(st.integers(-box, box), st.integers(-box, box), st.integers(-box, box)).map(list)
    if big:
        t = st.one_of(t, t, t, st.tuples(st.integers(-big, big), st.integers(-big, big), st.integers(-big, big)).map(list))
    return t if allow_zero else t.filter(lambda h: any(h))
