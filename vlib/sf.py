"""Shared machinery of C07 / C08: atom-list construction from drawn data and the explicit
structure-factor sum over the unit-cell contents."""
import math
from fractions import Fraction as Fr
import numpy as np
from hypothesis import strategies as st
from . import strat as S, oracles as O, groups as GR

SGRID = [Fr(0), Fr(1, 4), Fr(1, 3), Fr(1, 2), Fr(2, 3), Fr(3, 4)]
ELEMENTS = None


def elements():
    global ELEMENTS
    if ELEMENTS is None:
        from xfab import atomlib
        ELEMENTS = list(atomlib.formfactor.keys())
    return ELEMENTS


def atom_strategy(allow_special):
    gen = st.integers(1, 9972)
    gi = st.integers(0, len(SGRID) - 1)
    return st.fixed_dictionaries({
        "el": st.integers(0, 93), "x": st.tuples(gen, gen, gen).map(list), "g": st.tuples(gi, gi, gi).map(list),
        # 0 generic, 1 special (rational grid), 2 special in two coordinates, 3 origin, 4 a general position within 1e-9 .. 5e-6 of
        # a special one (an atom refined slightly off a mirror plane / axis)
        "special": st.sampled_from([0, 0, 1, 2, 3, 4]) if allow_special else st.sampled_from([0, 0, 0, 4]),
        "occ": st.one_of(S.fl(0.01, 1.0), st.just(1.0), st.just(0.0)) if allow_special else st.one_of(S.fl(0.01, 1.0), st.just(1.0)),
        "adp": st.sampled_from(["Uiso", "Uani", "none"]), "uiso": S.fl(0.002, 0.1),
        # one atom in eight has a slightly negative Uiso / a non-positive-definite Uani (as refinements do produce): the
        # Debye-Waller factor is the same expression exp(-h.beta.h), now above 1 for some hkl
        "npd": st.sampled_from([0] * 7 + [1]), "uneg": S.fl(0.0005, 0.005),
        "M": st.lists(S.fl(-0.03, 0.03), min_size=9, max_size=9), "eps": S.logfl(1e-5, 1e-3),
        "uform": st.sampled_from(["full", "full", "full", "diagonal", "equal-diagonal"]), "umag": st.sampled_from([1.0, 1.0, 1.0, 3.0, 10.0, 25.0]),
        "udiag": st.tuples(S.fl(0.003, 0.3), S.fl(0.003, 0.3), S.fl(0.003, 0.3)).map(list),
        "shift": st.tuples(st.integers(-2, 2), st.integers(-2, 2), st.integers(-2, 2)).map(list),
        "fp": S.fl(-2, 2), "fpp": S.fl(0, 3), "disp": st.sampled_from(["pair", "pair", "none"])})


def _far(case):
    """one case in eight: a 40 times larger cell (120-480 A) with Miller indices up to 200 (same sin(theta)/lambda range)"""
    far = case.pop("far")
    far_hkl = case.pop("hkl_far")
    if far is not None:
        case["abc"] = [x * far for x in case["abc"]]
        case["hkl"] = far_hkl
    return case


def case_strategy(unit, allow_special, box, nhkl=3):
    return st.fixed_dictionaries({
        "far": st.sampled_from([None] * 7 + [40.0]),
        "hkl_far": st.lists(S.hkls(200, allow_zero=True), min_size=nhkl, max_size=nhkl),
        "setting": st.just(unit),
        "abc": st.tuples(S.fl(3, 12), S.fl(3, 12), S.fl(3, 12)).map(list),
        "ang": st.tuples(S.fl(50, 115), S.fl(60, 120), S.fl(-1, 1)).map(list), "orth": st.integers(0, 4).map(lambda i: i == 0),
        "atoms": st.one_of(st.lists(atom_strategy(allow_special), min_size=1, max_size=4), st.lists(atom_strategy(allow_special), min_size=5, max_size=9)),
        "dup": st.sampled_from([None, None, None, 0, 1]),
        # (the wider box is chosen per case, not per reflection, so that three cases in four stay entirely inside the ordinary box)
        "hkl": st.one_of(*([st.lists(S.hkls(box, allow_zero=True), min_size=nhkl, max_size=nhkl)] * 3 + [st.lists(S.hkls(3 * box, allow_zero=True), min_size=nhkl, max_size=nhkl)])),
        "op": st.integers(0, 191), "ext_pick": S.fl(0, 1), "disper": st.sampled_from(["table", "table", "absent"]),
        "prev_cell": st.one_of(st.none(), st.none(), S.fl(0.7, 1.4), S.logfl(1e-8, 1e-3)),
        "pos_as": st.sampled_from(["array", "array", "list", "int-if-integral"]),
        "cell_as": st.sampled_from(["float-list", "float-list", "float-list", "float-array", "int-list", "int-array"]),
        "upper": st.booleans(), "blank": st.booleans()}).map(_far)


def ff(el, s):
    from xfab import atomlib
    v = atomlib.formfactor[el]
    return sum(v[i] * math.exp(-v[i + 4] * s * s) for i in range(4)) + v[8]


class Model(object):
    pass


def build(case):
    from xfab import structure
    no, ch = GR.SETTINGS[case["setting"]]
    g = GR.group(no, ch)
    a, b, c = case["abc"]
    cell = [float(x) + 0.0 for x in GR.conforming_cell(g, a, b, c, case["ang"][0], case["ang"][1], case["ang"][2], orth=case["orth"])]
    if g.crystal_system == "triclinic" and ch != "rhombohedral" and case["op"] % 5 == 0 and not case["orth"]:
        # a triclinic cell that happens to have three equal angles (and unequal edges)
        al = min(float(case["ang"][0]), 112.0)
        cell = [cell[0], cell[1], cell[2], al, al, al]
    cell, cell_arg = S.whole_number_variant(cell, case.get("cell_as", "float-list"))
    G, Gs, V = O.metric(cell)
    astar = np.sqrt(np.diag(Gs))
    M = Model()
    M.g, M.cell, M.G, M.Gs = g, cell, G, Gs
    M.npd = False
    allow_npd = max([abs(int(x)) for h in case["hkl"] for x in h] + [0]) <= 8      # (exp(+h.beta.h) stays of order 1: the comparison tolerances are absolute)
    M.cell_arg = cell_arg
    al = [a for a in GR.aliases(no, ch) if ch != "rhombohedral" or a.lower().endswith("r")]
    name = al[case["op"] % len(al)] if case["op"] % 3 == 0 else g.name
    if case["upper"]:
        name = name.upper()
    if case["blank"]:
        name = " ".join(name)
    M.name = name
    M.atoms, M.model = [], []
    M.int_positions = False
    disper = {} if case["disper"] == "table" else None
    els = elements()
    M.any_special = False
    M.any_fpp = False
    atom_specs = list(case["atoms"])
    if case.get("dup") is not None and len(atom_specs) < 9:
        # the same site listed twice (split occupancy of one site is written exactly like this): contributions add up
        atom_specs.append(dict(atom_specs[case["dup"] % len(atom_specs)]))
    for i, a_ in enumerate(atom_specs):
        el = els[a_["el"]]
        if a_["special"] == 0:
            posf = [Fr(k, 9973) for k in a_["x"]]
        elif a_["special"] == 3:
            posf = [Fr(0), Fr(0), Fr(0)]          # an atom at the origin (plus a lattice shift): the classic integer-typed position
        elif a_["special"] == 4:
            posf = [SGRID[k] + Fr(1 + (a_["x"][j] * 7919) % 5000, 10 ** 9) for j, k in enumerate(a_["g"])]
        elif a_["special"] == 1:
            posf = [SGRID[k] for k in a_["g"]]
        else:   # special in two coordinates, generic in the third
            posf = [SGRID[a_["g"][0]], SGRID[a_["g"][1]], Fr(a_["x"][2], 9973)]
        orb = g.orbit(posf)
        mult = len(orb)
        stab = g.stabiliser(posf)
        if len(stab) > 1:
            M.any_special = True
        pos = np.array([float(x) for x in posf]) + np.array(a_["shift"], float)
        how = case.get("pos_as", "array")
        if a_["special"] == 3 and i % 2 == 0:
            how = "int-if-integral"
        if how == "list":
            pos = [float(x) for x in pos]
        elif how == "int-if-integral" and all(float(x).is_integer() for x in pos):
            pos = [int(x) for x in pos] if i % 2 == 0 else np.array([int(x) for x in pos])     # e.g. an atom at [0, 0, 0]
            M.int_positions = True
        kind = a_["adp"]
        beta = None
        npd = bool(a_.get("npd")) and allow_npd
        if kind == "Uiso":
            adp = -a_.get("uneg", 0.001) if npd else a_["uiso"]
            if npd:
                M.npd = True
        elif kind == "Uani":
            Mm = np.array(a_["M"], float).reshape(3, 3) * (1.0 if npd else a_.get("umag", 1.0))     # from gentle to strongly anisotropic motion
            beta = Mm @ Mm.T + a_["eps"] * np.eye(3)
            if npd:
                beta = beta - 0.8 * (np.trace(beta) / 3.0) * np.eye(3)       # some principal components negative
                M.npd = True
            uform = a_.get("uform", "full")
            if uform != "full" and len(stab) == 1:
                # tensors with exactly zero cross terms (as refined for many real structures), optionally U11 = U22 = U33
                ud = a_["udiag"] if uform == "diagonal" else [a_["udiag"][0]] * 3
                beta = 2 * math.pi ** 2 * np.outer(astar, astar) * np.diag(ud)
            # average over the exact stabiliser so that the tensor is site-symmetric
            beta = sum(g.R[k].astype(float) @ beta @ g.R[k].astype(float).T for k in stab) / len(stab)
            Um = beta / (2 * math.pi ** 2 * np.outer(astar, astar))
            adp = [Um[0, 0], Um[1, 1], Um[2, 2], Um[1, 2], Um[0, 2], Um[0, 1]]
        else:
            adp = None
        atype = None if kind == "none" else kind
        M.atoms.append(structure.atom_entry(label="A%d" % i, atomtype=el, pos=pos, adp_type=atype, adp=adp, occ=a_["occ"], symmulti=mult))
        if disper is not None:
            if a_["disp"] == "pair":
                disper[el] = [a_["fp"], a_["fpp"]]
            elif el not in disper:
                disper[el] = None
        M.model.append({"el": el, "occ": a_["occ"], "orb": orb, "kind": kind, "adp": adp, "beta": beta, "mult": mult, "posf": posf, "shift": a_["shift"]})
    M.disper = disper
    if disper:
        M.any_fpp = any(v is not None and v[1] != 0 for v in disper.values())
    M.S = sum(m["occ"] * m["mult"] * ff(m["el"], 0.0) for m in M.model)
    M.sumf0 = sum(m["occ"] * ff(m["el"], 0.0) for m in M.model)
    return M


def classify(case, M, ctx):
    """generator statistics for the evidence file"""
    if max([abs(int(x)) for h in case["hkl"] for x in h] + [0]) > 30:
        ctx.event("far-case (40x cell, indices up to 200)")
    if M.npd:
        ctx.event("negative-Uiso-or-non-positive-definite-Uani")
    ca = M.cell_arg
    if all(isinstance(x, (int, np.integer)) for x in (ca.tolist() if hasattr(ca, "tolist") else ca)):
        ctx.event("integer-typed-cell")


def explicit_F(M, h):
    """Direct sum over every atom of the unit cell (distinct images of every site)."""
    h = np.asarray(h, float)
    s = O.stl(M.Gs, h)
    F = 0j
    for m in M.model:
        fp, fpp = 0.0, 0.0
        if M.disper is not None and M.disper.get(m["el"]) is not None:
            fp, fpp = M.disper[m["el"]]
        f = ff(m["el"], s) + fp + 1j * fpp
        for p, k in m["orb"]:
            if m["kind"] == "Uiso":
                dw = math.exp(-8 * math.pi ** 2 * m["adp"] * s * s)
            elif m["kind"] == "Uani":
                R = M.g.R[k].astype(float)
                dw = math.exp(-float(h @ (R @ m["beta"] @ R.T) @ h))
            else:
                dw = 1.0
            ph = float(sum(int(h[i]) * p[i] for i in range(3)) % 1)
            F += m["occ"] * f * dw * complex(math.cos(2 * math.pi * ph), math.sin(2 * math.pi * ph))
    return F


def tol(M, h, extra_h1=0):
    """1e-9 S + rounding allowance for tabulated thirds/sixths (6 digits): each phase is off by
    at most 2 pi |h|_1 delta."""
    h1 = max(float(np.sum(np.abs(h))), extra_h1)
    return 1e-9 * M.S + 4 * math.pi * M.sumf0 * M.g.nsymop * h1 * M.g.trans_defect + 1e-12


_BY_NSYMOP = None


def warm_up(M, case, ctx):
    """History element: the same atom objects were used with ANOTHER unit cell (a previous refinement step, or a
    different sample) and / or with ANOTHER space group of the same order immediately before; results must depend
    on the arguments of the current call only.  The order of the two earlier calls alternates."""
    from xfab import structure
    pc = case.get("prev_cell")
    if pc is None:
        return
    global _BY_NSYMOP
    if _BY_NSYMOP is None:
        _BY_NSYMOP = {}
        for no in range(1, 231):
            _BY_NSYMOP.setdefault(GR.group(no, "standard").nsymop, []).append(no)
    f = pc if pc > 0.5 else (1 + pc)
    other = [M.cell[0] * f, M.cell[1] * f, M.cell[2] * f, M.cell[3], M.cell[4], M.cell[5]]
    d = M.disper
    peers = [n for n in _BY_NSYMOP.get(M.g.nsymop, []) if n != M.g.no]

    def other_cell():
        structure.StructureFactor(np.array([1, 2, 1]), other, M.name, M.atoms, d)
        ctx.event("same-atom-objects-used-with-another-cell-first")

    def other_group():
        if peers:
            og = GR.group(peers[case["op"] % len(peers)], "standard")
            structure.StructureFactor(np.array([2, 1, 1]), M.cell, og.name, M.atoms, d)
            ctx.event("same-atom-objects-used-with-another-group-first")
    steps = [other_cell, other_group] if case["op"] % 2 else [other_group, other_cell]
    if case["op"] % 3 == 0:
        steps = steps[:1]
    for st_ in steps:
        st_()


def sfcalc(M, h, atoms=None, disper="default"):
    from xfab import structure
    d = M.disper if disper == "default" else disper
    r = structure.StructureFactor(np.asarray(h), M.cell_arg, M.name, M.atoms if atoms is None else atoms, d)
    return complex(float(r[0]), float(r[1]))
