"""C02 - U, B and UBI convert into each other without loss; QR split is unique."""
import math
import numpy as np
from hypothesis import strategies as st
from vlib import strat as S, oracles as O

ID = "C02"
SWITCH_OFF = 6        # every 6th case runs with xfab.CHECKS switched off (results must not depend on it)
TARGETED = True     # thorough tier uses hypothesis.target on the residual/tolerance ratios
RULE = ("Hypothesis: rotation spec (quaternion / Euler / near-gimbal / axis-aligned / products) x cell over the C01 "
        "domain x hkl in [-20,20]^3 x module; UB matrices constructed as U0.B0 with B0 upper triangular, positive "
        "diagonal (log-uniform) and cond < 1e6, so the expected factorisation is known. Non-trivial = (U not "
        "axis-aligned and cell oblique) or cond(B0) > 1e3")
ASSUMPTIONS = ["tolerance 1e-9 (absolute on U, relative to max|B| on B, relative to |h| on UBI.g)",
               "every det>0 matrix has exactly one factorisation U0.B0 (QR uniqueness), so constructing it spans the domain"]
TOL = 1e-9


def units(tier):
    if tier == "quick":
        return [(i, 1250) for i in range(8)]
    # plain generation for the bulk, plus four small units in which Hypothesis hill-climbs on the residual/tolerance ratios
    return [(i, 30000) for i in range(16)] + [("target-%d" % i, 2500) for i in range(4)]


def _b0():
    d = st.tuples(S.logfl(1e-2, 1e2), S.logfl(1e-2, 1e2), S.logfl(1e-2, 1e2))
    o = st.tuples(S.fl(-1, 1), S.fl(-1, 1), S.fl(-1, 1))
    return st.tuples(d, o).map(lambda t: {"d": list(t[0]), "o": list(t[1])})


def build_b0(spec):
    d, o = spec["d"], spec["o"]
    # off-diagonals scaled by the row's diagonal keep the matrix well conditioned relative to its diagonal
    return np.array([[d[0], o[0] * d[0], o[1] * d[0]], [0, d[1], o[2] * d[1]], [0, 0, d[2]]], float)


def strategy(tier, unit):
    return st.fixed_dictionaries({"rot": S.rot_specs(1), "cell": S.cells(), "hkl": S.hkls(20, big=300),
                                  "mod": st.sampled_from(["tools", "laue"]), "b0": _b0(),
                                  # overall magnitude of the general UB matrix (the factorisation is scale-free): 1 in most cases, else 1e-12 .. 1e12
                                  "b0_scale": st.one_of(st.just(1.0), st.just(1.0), st.just(1.0), S.logfl(1e-12, 1e12)),
                                  "as": st.sampled_from(["array", "array", "nested-list", "int-if-integral"]),
                                  "prev": st.one_of(st.none(), st.fixed_dictionaries({"rot": S.rot_specs(1), "cell": st.one_of(S.cells(), S.logfl(1e-9, 1e-3)), "as_array": st.booleans()}))})


def check(case, ctx):
    from xfab import tools, laue
    m = case["mod"]
    mod = tools if m == "tools" else laue
    f = O.TWO_PI if m == "tools" else 1.0
    cell = [x + 0.0 for x in case["cell"]]
    U0 = O.ro(S.build_rotation(case["rot"]) + 0.0)
    h = np.array(case["hkl"], float)
    G, Gs, V = O.metric(cell)
    axis = S.rot_is_axis(U0)
    B0 = build_b0(case["b0"]) * case.get("b0_scale", 1.0)
    cond = np.linalg.cond(B0)
    if cond >= 1e6:
        ctx.event("b0-cond>=1e6 (QR part skipped)")
    nt = ((not axis) and S.is_oblique(cell)) or (1e3 < cond < 1e6)
    ctx.nontrivial(nt)
    ctx.event("axis-aligned-U" if axis else "generic-U")
    if case["rot"]["kind"] in ("euler", "prod"):
        e = case["rot"].get("e") or case["rot"]["b"]["e"]
        if min(abs(e[1]), abs(e[1] - math.pi)) < 1e-3:
            ctx.event("near-singular-euler")

    how = case.get("as", "array")
    # history: the same cell object was used for another grain / another cell just before (and its results are
    # still held by the caller); the conversions of THIS grain must depend on the current arguments only
    cell_arg = cell
    if case.get("prev") is not None:
        pv = case["prev"]
        pcell = pv["cell"] if isinstance(pv["cell"], list) else S.perturbed(cell, pv["cell"])
        holder = np.array(pcell, float) if pv["as_array"] else [float(x) for x in pcell]
        Up = O.ro(S.build_rotation(pv["rot"]) + 0.0)
        ubip = O.ro(ctx.keep("%s.u_to_ubi" % m, mod.u_to_ubi(Up, holder)))
        ctx.keep("%s.ubi_to_u" % m, mod.ubi_to_u(ubip))
        ctx.keep("%s.ubi_to_cell" % m, mod.ubi_to_cell(ubip))
        ctx.keep("%s.ubi_to_u_b" % m, mod.ubi_to_u_b(ubip))
        ctx.keep("%s.ub_to_u_b" % m, mod.ub_to_u_b(O.ro(Up @ build_b0(case["b0"]))))
        if O.rot_angle_deg(Up) < 179.0:
            ctx.keep("%s.ubi_to_rod" % m, mod.ubi_to_rod(ubip))
        holder[:] = cell
        cell_arg = holder
        ctx.event("previous-grain-with-same-cell-object")
    elif S.is_int_typed(case["cell"]):
        cell_arg = S.cell_arg(case["cell"], how == "array")
        ctx.event("integer-typed-cell")
    # how the caller types its matrices: read-only float arrays, nested Python lists, or integers for an axis-aligned U
    how = case.get("as", "array")
    def typed(Mx):
        if how == "nested-list":
            return [[float(x) for x in row] for row in np.asarray(Mx)]
        if how == "int-if-integral" and np.array_equal(np.asarray(Mx), np.round(np.asarray(Mx))):
            return np.round(np.asarray(Mx)).astype(int)
        return Mx
    if how != "array":
        ctx.event("matrices-typed-as:" + how)
    B = np.asarray(mod.form_b_mat(cell_arg), float)
    ubi = O.ro(mod.u_to_ubi(typed(U0), cell_arg))
    # UBI.(U.B.hkl) = f*hkl
    g = U0 @ B @ h
    ctx.near("UBI.g=f.h", O.maxabs(ubi @ g - f * h) / (f * np.linalg.norm(h)), TOL, "ubi-times-g",
             "%s: UBI.(U.B.h) != %s h for cell %r" % (m, "2pi" if f > 1 else "", cell))
    # rows of UBI are real-space lattice vectors: UBI.UBI' = G  (independent of B)
    dG = np.sqrt(np.diag(G))
    ctx.near("UBI.UBI'=G", O.maxabs((ubi @ ubi.T - G) / np.outer(dG, dG)), TOL, "ubi-metric",
             "%s: UBI.UBI' is not the direct metric tensor" % m)
    # and the lattice vectors expressed in the rotated frame: UBI = (U A)^-1-free statement: UBI.U = inv(B)*f
    ctx.near("UBI.U.B=f.I", O.maxabs(ubi @ U0 @ B - f * np.eye(3)), 1e-8, "ubi-inverse", "%s: UBI.U.B != f.I" % m)
    # decompose again
    U1 = np.asarray(mod.ubi_to_u(typed(ubi)), float)
    ctx.near("ubi_to_u", O.maxabs(U1 - U0), TOL, "ubi_to_u", "%s: ubi_to_u(u_to_ubi(U)) != U (max dev %g)" % (m, O.maxabs(U1 - U0)))
    c1 = mod.ubi_to_cell(typed(ubi))
    ctx.near("ubi_to_cell", _cell_diff(c1, cell), 1e-8, "ubi_to_cell", "%s: ubi_to_cell %r != %r" % (m, list(c1), cell))
    U2, B2 = mod.ubi_to_u_b(typed(ubi))
    U2, B2 = np.asarray(U2, float), np.asarray(B2, float)
    ctx.near("ubi_to_u_b/U", O.maxabs(U2 - U0), TOL, "ubi_to_u_b/U", "%s: ubi_to_u_b U differs" % m)
    ctx.near("ubi_to_u_b/B", O.maxabs(B2 - B) / O.maxabs(B), TOL, "ubi_to_u_b/B", "%s: ubi_to_u_b B differs from form_b_mat" % m)
    # Rodrigues route (skip near 180 deg where u_to_rod is singular by definition)
    if O.rot_angle_deg(U0) < 179.0:
        r = np.asarray(mod.ubi_to_rod(ubi), float)
        U3 = np.asarray(mod.rod_to_u(r), float)
        ctx.near("ubi_to_rod->rod_to_u", O.maxabs(U3 - U0), 1e-7, "ubi_to_rod", "%s: rod_to_u(ubi_to_rod(ubi)) != U" % m)
    # QR split of an arbitrary det>0 matrix
    if cond < 1e6:
        UB = O.ro(U0 @ B0)
        Uq, Bq = mod.ub_to_u_b(typed(UB))
        Uq, Bq = np.asarray(Uq, float), np.asarray(Bq, float)
        sc = O.maxabs(B0)
        if not (Bq[1, 0] == 0 and Bq[2, 0] == 0 and Bq[2, 1] == 0) and O.maxabs(np.tril(Bq, -1)) > 1e-12 * sc:
            ctx.fail("qr/B-not-upper", "%s: ub_to_u_b B not upper triangular" % m)
        if not (Bq[0, 0] > 0 and Bq[1, 1] > 0 and Bq[2, 2] > 0):
            ctx.fail("qr/B-diagonal-sign", "%s: ub_to_u_b B diagonal %r not positive" % (m, np.diag(Bq).tolist()))
        ctx.near("qr/U-orthonormal", O.ortho_defect(Uq), TOL, "qr/U-not-orthonormal", "%s: ub_to_u_b U not orthonormal" % m)
        ctx.near("qr/detU=+1", abs(np.linalg.det(Uq) - 1), TOL, "qr/U-improper", "%s: ub_to_u_b det U = %r" % (m, np.linalg.det(Uq)))
        ctx.near("qr/U.B=UB", O.maxabs(Uq @ Bq - UB) / O.maxabs(UB), TOL, "qr/product", "%s: U.B != UB" % m)
        ctx.near("qr/U=U0", O.maxabs(Uq - U0), 1e-8, "qr/U-unique", "%s: ub_to_u_b U differs from the generating rotation" % m)
        ctx.near("qr/B=B0", O.maxabs(Bq - B0) / sc, 1e-8, "qr/B-unique", "%s: ub_to_u_b B differs from the generating B0" % m)


def _cell_diff(c1, c2):
    """Relative on lengths; angles compared both through their cosines (well conditioned everywhere) and directly, the
    direct difference scaled by sin(angle): an angle obtained through arccos is good to eps/sin(angle), so
    |d angle| * sin(angle) is the quantity with a uniform tolerance."""
    c1 = [float(x) for x in c1]
    c2 = [float(x) for x in c2]
    d = max(abs(c1[i] / c2[i] - 1) for i in range(3))
    for i in range(3, 6):
        a1, a2 = math.radians(c1[i]), math.radians(c2[i])
        d = max(d, abs(math.cos(a1) - math.cos(a2)), abs(a1 - a2) * max(math.sin(a2), 1e-3))
    return d
