"""C08 - structure factor equals the explicit sum over the unit-cell contents."""
import math, copy
import numpy as np
from vlib import strat as S, oracles as O, groups as GR, sf as SF

ID = "C08"
SWITCH_OFF = 6        # every 6th case runs with xfab.CHECKS switched off (results must not depend on it)
RULE = ("one unit per setting (237, by name); per case a conforming cell (oblique where the system allows), 1-4 atoms at general "
        "positions k/9973, at special positions from the rational grid {0,1/4,1/3,1/2,2/3,3/4}^3 or special in two coordinates, "
        "with symmulti = exact orbit size, shifted by lattice vectors; Uiso / site-symmetrised positive-definite Uani / no ADP; "
        "dispersion table present (entries [f',f''] or None) or absent; three hkl in [-6,6]^3 (one case in four [-18,18]^3; one case in eight a 40x larger cell with indices in [-200,200]^3) plus 000. Oracle: direct sum over the "
        "distinct images of every site of occ (f(s)+f'+if'') T exp(2 pi i h.r) with s from the metric tensor, f from the nine "
        "coefficients; metamorphic corollaries (lattice shift, linearity in occupancy, Uiso == equivalent Uani, F(000)). "
        "Non-trivial = a special position with non-trivial stabiliser, or dispersion with f'' != 0, or an oblique cell")
ASSUMPTIONS = ["tolerance as C07 (1e-9 S + rounding allowance of tabulated thirds/sixths)",
               "for special positions the anisotropic tensor is first averaged over the exact stabiliser (site-symmetric), as physics requires"]


def units(tier):
    n = 10 if tier == "quick" else 200
    return [(i, n) for i in range(len(GR.SETTINGS))]


def strategy(tier, unit):
    return SF.case_strategy(unit, allow_special=True, box=6)


def check(case, ctx):
    from xfab import structure
    M = SF.build(case)
    g = M.g
    SF.classify(case, M, ctx)
    if GR.touch_sibling(g.no, g.choice):
        ctx.event("sibling-setting-used-first")
    tag = g.crystal_system
    kinds = sorted({m["kind"] for m in M.model})
    obl = any(abs(x - 90.0) > 1e-9 and abs(x - 120.0) > 1e-9 for x in M.cell[3:6])
    ctx._sample_view = {"group": "%s (Sg%d, %s)" % (M.name, g.no, g.choice), "cell": M.cell, "dispersion": M.disper,
                        "atoms": [(m["el"], [str(x) for x in m["posf"]], m["kind"], m["occ"], m["mult"]) for m in M.model], "hkl": case["hkl"]}
    ctx.nontrivial(M.any_special or M.any_fpp or obl)
    for k in kinds:
        ctx.event("adp:" + k)
    if M.any_special:
        ctx.event("special-position")
    if M.any_fpp:
        ctx.event("dispersion-f''!=0")
    if M.disper is None:
        ctx.event("dispersion-absent")
    if obl:
        ctx.event("oblique-cell")
    SF.warm_up(M, case, ctx)
    if M.int_positions:
        ctx.event("integer-typed-coordinates")
    hs = [np.array(h, np.int64) for h in case["hkl"]] + [np.zeros(3, np.int64)]
    for h in hs:
        F = SF.sfcalc(M, h)
        ref = SF.explicit_F(M, h)
        tl = SF.tol(M, h)
        ctx.near("F=explicit-sum", abs(F - ref) / tl, 1.0, "explicit-sum/%s/%s%s" % (tag, "+".join(kinds), "/special" if M.any_special else ""),
                 "%s (Sg%d %s) h=%r: StructureFactor = %r, explicit unit-cell sum = %r (|dev|/S = %g); atoms %r" % (
                     M.name, g.no, g.choice, h.tolist(), F, ref, abs(F - ref) / max(M.S, 1e-300),
                     [(m["el"], [str(x) for x in m["posf"]], m["kind"], m["mult"]) for m in M.model]))
    h = hs[0]
    F0 = SF.sfcalc(M, h)
    tl = SF.tol(M, h)
    # (a) lattice shift of every atom
    shifted = copy.deepcopy(M.atoms)
    for a_, m in zip(shifted, M.model):
        a_.pos = a_.pos + np.array([1, -2, 3.0])
    ctx.near("lattice-shift", abs(SF.sfcalc(M, h, atoms=shifted) - F0) / tl, 1.0, "lattice-shift-invariance", "%s h=%r" % (M.name, h.tolist()))
    # (b) linearity in occupancy: halving every occupancy halves F
    half = copy.deepcopy(M.atoms)
    for a_ in half:
        a_.occ = a_.occ * 0.5
    ctx.near("occupancy-linearity", abs(2 * SF.sfcalc(M, h, atoms=half) - F0) / tl, 1.0, "occupancy-linearity", "%s h=%r" % (M.name, h.tolist()))
    # (c) isotropic U == the anisotropic tensor of the same isotropic motion: U_ij = U cos(angle(a*_i, a*_j))
    Gs = M.Gs
    astar = np.sqrt(np.diag(Gs))
    iso, ani = copy.deepcopy(M.atoms), copy.deepcopy(M.atoms)
    for a1, a2, m in zip(iso, ani, M.model):
        U = 0.01 + 0.05 * m["occ"]
        a1.adp_type, a1.adp = "Uiso", U
        C = Gs / np.outer(astar, astar)
        a2.adp_type, a2.adp = "Uani", [U * C[0, 0], U * C[1, 1], U * C[2, 2], U * C[1, 2], U * C[0, 2], U * C[0, 1]]
    ctx.near("Uiso=Uani(iso)", abs(SF.sfcalc(M, h, atoms=iso) - SF.sfcalc(M, h, atoms=ani)) / tl, 1.0, "uiso-vs-equivalent-uani/" + tag, "%s h=%r cell %r" % (M.name, h.tolist(), M.cell))
    # (d) F(000) with zero displacement = sum occ mult (f(0) + f' + i f'')
    bare = copy.deepcopy(M.atoms)
    for a_ in bare:
        a_.adp_type, a_.adp = None, None
    F000 = SF.sfcalc(M, [0, 0, 0], atoms=bare)
    ref000 = 0j
    for m in M.model:
        fp, fpp = 0.0, 0.0
        if M.disper is not None and M.disper.get(m["el"]) is not None:
            fp, fpp = M.disper[m["el"]]
        ref000 += m["occ"] * m["mult"] * (SF.ff(m["el"], 0.0) + fp + 1j * fpp)
    ctx.near("F(000)", abs(F000 - ref000) / (1e-9 * M.S + 1e-12), 1.0, "F000", "%s: F(000) = %r, occupancy-weighted form-factor sum %r" % (M.name, F000, ref000))
