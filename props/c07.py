"""C07 - structure factors transform correctly under the space-group operations."""
import math
import numpy as np
from vlib import strat as S, oracles as O, groups as GR, sf as SF

ID = "C07"
SWITCH_OFF = 6        # every 6th case runs with xfab.CHECKS switched off (results must not depend on it)
RULE = ("one unit per setting (230 standard + 7 rhombohedral, called by name incl. case/blank variants); per case a conforming "
        "cell, 1-4 atoms at generic positions k/9973 with element from the full table, occupancy in (0,1], Uiso / positive-definite "
        "Uani / no ADP, symmulti = nsymop, six hkl in [-8,8]^3 (one case in four [-24,24]^3; one case in eight a 40x larger cell with indices in [-200,200]^3), an operation index, and an operator-extinct hkl picked from the "
        "box [-4,4]^3 when the group has one. Oracle: F(hR) = F(h) exp(-2 pi i h.t), |F| constant over the orbit, F = 0 when "
        "extinct, Friedel F(-h) = conj F(h) without dispersion. Non-trivial = the drawn R is not symmetric or t != 0 with h.t non-integral")
ASSUMPTIONS = ["tolerance 1e-9 S + 4 pi sum(occ f(0)) nsymop |h|_1 delta, S = total scattering power, delta = rounding of the tabulated translations (3.4e-7 for thirds/sixths)",
               "atoms at generic positions only (special positions are C08's domain)"]


def units(tier):
    n = 12 if tier == "quick" else 200
    return [(i, n) for i in range(len(GR.SETTINGS))]


def strategy(tier, unit):
    return SF.case_strategy(unit, allow_special=False, box=8, nhkl=6)


def check(case, ctx):
    M = SF.build(case)
    g = M.g
    SF.classify(case, M, ctx)
    if GR.touch_sibling(g.no, g.choice):      # both settings of an R group used in one process
        ctx.event("sibling-setting-used-first")
    tag = "%s" % g.crystal_system
    j = case["op"] % g.nsymop
    R, t24 = g.R[j], g.T24[j]
    kinds = sorted({m["kind"] for m in M.model})
    for k in kinds:
        ctx.event("adp:" + k)
    nontriv = False
    ctx._sample_view = {"group": "%s (Sg%d, %s)" % (M.name, g.no, g.choice), "cell": M.cell, "operation": j,
                        "atoms": [(m["el"], [str(x) for x in m["posf"]], m["kind"], m["occ"]) for m in M.model], "hkl": case["hkl"]}
    SF.warm_up(M, case, ctx)
    for h in case["hkl"]:
        h = np.array(h, np.int64)
        hR = h @ R
        F = SF.sfcalc(M, h, disper=None)
        FR = SF.sfcalc(M, hR, disper=None)
        ph = (int(h @ t24) % 24) / 24.0
        expect = F * complex(math.cos(2 * math.pi * ph), -math.sin(2 * math.pi * ph))
        tl = SF.tol(M, h, float(np.sum(np.abs(hR))))
        nonsym = not np.array_equal(R, R.T)
        if nonsym or (int(h @ t24) % 24 != 0):
            nontriv = True
        ctx.near("F(hR)=F(h)exp(-2pi i h.t)", abs(FR - expect) / tl, 1.0, "transformation-law/%s/%s" % (tag, "+".join(kinds)),
                 "%s (Sg%d %s) atoms %s: F(hR) = %r, F(h) exp(-2 pi i h.t) = %r for h=%r, op %d; |dev|/S = %g" % (
                     M.name, g.no, g.choice, kinds, FR, expect, h.tolist(), j, abs(FR - expect) / max(M.S, 1e-300)))
        ctx.near("|F| over orbit", abs(abs(FR) - abs(F)) / tl, 1.0, "modulus-over-orbit/%s/%s" % (tag, "+".join(kinds)),
                 "%s: |F(hR)| = %r != |F(h)| = %r for h=%r op %d" % (M.name, abs(FR), abs(F), h.tolist(), j))
        Fm = SF.sfcalc(M, -h, disper=None)
        ctx.near("Friedel", abs(Fm - F.conjugate()) / tl, 1.0, "friedel/" + tag, "%s: F(-h) != conj F(h) for h=%r" % (M.name, h.tolist()))
    ctx.nontrivial(nontriv)
    # an operator-extinct reflection has F = 0
    box = np.array([[a, b, c] for a in range(-4, 5) for b in range(-4, 5) for c in range(-4, 5) if (a, b, c) != (0, 0, 0)])
    ext = box[g.extinct(box)]
    if len(ext):
        h = ext[min(len(ext) - 1, int(case["ext_pick"] * len(ext)))]
        F = SF.sfcalc(M, h, disper=None)
        ctx.near("F(extinct)=0", abs(F) / SF.tol(M, h), 1.0, "extinct-not-zero/" + tag, "%s: F%r = %r but the reflection is extinct" % (M.name, h.tolist(), F))
        ctx.event("extinct-reflection-checked")
