"""C16 - atomic form factors are physical: f(0)=Z, positive and decreasing."""
import math
import numpy as np
from hypothesis import strategies as st
from vlib import strat as S, oracles as O, harness

ID = "C16"
SWITCH_OFF = 6        # every 6th case runs with xfab.CHECKS switched off (results must not depend on it)
EXHAUSTIVE = True
RULE = ("exhaustive: all table entries x 2001-point grid s in [0,2] (f(0)=Z within 0.1, positivity, monotonicity decided "
        "analytically from the signs of a_i*b_i where possible, otherwise on the grid with a Lipschitz bound on f' between "
        "grid points), FormFactor vs the nine coefficients; Hypothesis: (element, s in [0,2], s2 > s; scalars, 0-d arrays, unsorted 41-point grids of several shapes, arrays of 33000-90000 values) for point-wise "
        "positivity / monotonicity / formula. Non-trivial = element other than C, H, O (the only ones the suite touches)")
ASSUMPTIONS = ["atomic numbers from an independent symbol->Z list in this file",
               "a change of a coefficient that moves f(0) by less than 0.1 e and keeps f monotone is physically indistinguishable and not claimed to be detected"]
SYMBOLS = ("H HE LI BE B C N O F NE NA MG AL SI P S CL AR K CA SC TI V CR MN FE CO NI CU ZN GA GE AS SE BR KR RB SR Y ZR NB MO TC "
           "RU RH PD AG CD IN SN SB TE I XE CS BA LA CE PR ND PM SM EU GD TB DY HO ER TM YB LU HF TA W RE OS IR PT AU HG TL PB BI PO "
           "AT RN FR RA AC TH PA U NP PU AM CM BK CF").split()
Z = {s: i + 1 for i, s in enumerate(SYMBOLS)}


def units(tier):
    return [(i, 1500) for i in range(4)] if tier == "quick" else [(i, 50000) for i in range(16)]


def strategy(tier, unit):
    return st.fixed_dictionaries({"el": st.integers(0, 93), "s": st.one_of(S.fl(0.0, 2.0), st.sampled_from([0.0, 1.0, 2.0, 0.5])), "ds": S.logfl(1e-6, 1.0),
                                  "s_as": st.sampled_from(["float", "numpy", "int-if-integral", "array0d", "grid"]),
                                  "sf_first": st.one_of(st.none(), st.tuples(S.fl(-3, 3), S.fl(0, 4)).map(list))})


def harness_scribble(x):
    from vlib import harness as _h
    _h.scribble(x)


def _f(c, s):
    return sum(c[i] * math.exp(-c[i + 4] * s * s) for i in range(4)) + c[8]


def exhaustive(ctx, tier):
    from xfab import atomlib, structure
    keys = list(atomlib.formfactor.keys())
    ctx.extra["table_entries"] = len(keys)
    if len(keys) != 94:
        ctx.fail("table-size", "form factor table has %d entries, 94 expected" % len(keys))
    for el in keys:
        ctx.begin({"exhaustive-element": el})
        harness.guarded_call(ctx, exhaustive_one, ctx, el)
    missing = [s for s in SYMBOLS[:94] if s not in atomlib.formfactor]
    if missing:
        ctx.fail("missing-elements", "no table entry for %r" % missing)


def exhaustive_one(ctx, el):
    from xfab import atomlib, structure
    grid = np.linspace(0.0, 2.0, 2001)
    h = grid[1] - grid[0]
    for _ in (0,):
        c = [float(x) for x in atomlib.formfactor[el]]
        if el not in Z:
            ctx.fail("unknown-element/" + el, "table key %r is not an element symbol" % el)
            continue
        if len(c) != 9:
            ctx.fail("coefficients/" + el, "%s has %d coefficients" % (el, len(c)))
            continue
        ctx.nontrivial(el not in ("C", "H", "O"), key=("exh", el))
        f0 = sum(c[:4]) + c[8]
        ctx.near("|f(0)-Z|", abs(f0 - Z[el]), 0.1, "f0-not-Z/" + el, "%s: f(0) = sum a_i + c = %.4f, Z = %d" % (el, f0, Z[el]))
        a, b = np.array(c[:4]), np.array(c[4:8])
        vals = (a[None, :] * np.exp(-b[None, :] * grid[:, None] ** 2)).sum(axis=1) + c[8]
        lib = np.array([structure.FormFactor(el, s) for s in grid[::20]])
        ctx.near("FormFactor=formula", float(np.max(np.abs(lib - vals[::20]) / np.abs(vals[::20]))), 1e-13, "FormFactor/formula/" + el,
                 "%s: FormFactor differs from sum a_i exp(-b_i s^2) + c" % el)
        # derivative bound: |f''| <= sum |a_i b_i| (2 + 4 b_i s^2) exp(-b_i s^2) <= L2
        L2 = float(np.sum(np.abs(a * b) * (2 + 4 * np.abs(b) * 4.0)))
        L1 = float(np.max(np.abs((-2 * grid[:, None] * a[None, :] * b[None, :] * np.exp(-b[None, :] * grid[:, None] ** 2)).sum(axis=1))))
        # positivity: grid minimum minus the largest possible dip between grid points
        if not (vals.min() - L1 * h > 0):
            if vals.min() <= 0:
                ctx.fail("not-positive/" + el, "%s: f(%.3f) = %.4f <= 0" % (el, grid[int(np.argmin(vals))], vals.min()))
            else:
                ctx.event("positivity-inconclusive-between-grid-points")
        if np.all(a * b > 0):
            ctx.event("monotone-analytic")          # f' = -2 s sum a_i b_i e^{-b_i s^2} < 0 for s > 0
        else:
            ctx.event("monotone-on-grid")
            d = np.diff(vals)
            if not np.all(d < 0):
                i = int(np.argmax(d))
                ctx.fail("not-decreasing/" + el, "%s: f(%.3f)=%.6f -> f(%.3f)=%.6f" % (el, grid[i], vals[i], grid[i + 1], vals[i + 1]))
        if np.all(a * b > 0) is False:
            pass
        # an independent, sign-agnostic look at the grid as well (covers a sign error in one b_i)
        d = np.diff(vals)
        if not np.all(d < 0):
            i = int(np.argmax(d))
            ctx.fail("not-decreasing/" + el, "%s: f(%.3f)=%.6f -> f(%.3f)=%.6f" % (el, grid[i], vals[i], grid[i + 1], vals[i + 1]))


def check(case, ctx):
    from xfab import atomlib, structure
    if "exhaustive-element" in case:
        exhaustive_one(ctx, case["exhaustive-element"])
        return
    keys = list(atomlib.formfactor.keys())
    el = SYMBOLS[case["el"]]
    if el not in atomlib.formfactor:
        ctx.fail("missing-elements", "no table entry for %s" % el)
        return
    c = [float(x) for x in atomlib.formfactor[el]]
    s = case["s"] + 0.0
    s2 = min(2.0, s + case["ds"])
    ctx.nontrivial(el not in ("C", "H", "O"))
    if case.get("sf_first") is not None:
        # history: the element was first used in a structure-factor calculation with a dispersion correction
        fp, fpp = case["sf_first"]
        atom = structure.atom_entry(label="X1", atomtype=el, pos=[0.1, 0.2, 0.3], adp_type="Uiso", adp=0.01, occ=1.0, symmulti=1)
        structure.StructureFactor(np.array([1, 0, 0]), [5.0, 6.0, 7.0, 90.0, 90.0, 90.0], "P1", [atom], {el: [fp, fpp]})
        ctx.event("structure-factor-with-dispersion-first")
    if case.get("sf_first") is None and case["el"] % 2 == 0:
        # history: a call with a symbol the table does not hold (an ion from a CIF type loop, a lower-case or unknown
        # symbol) came first; whether the library rejects it or not, it must not change what the table returns afterwards
        for bad in (el + "2+", el + "1-", el.lower(), "XX"):
            try:
                structure.FormFactor(bad, 0.3)
            except Exception:
                pass
        ctx.event("call-with-unknown-symbol-first")
    how = case.get("s_as", "float")
    if how == "grid":
        # the caller evaluates one (read-only) grid of s values for several elements
        base = np.linspace(0.0, 2.0, 41)
        k_ = int(case["ds"] * 1e6) % 41
        order = [(7 * i + k_) % 41 for i in range(41)]          # the caller's own order of s values (not sorted)
        grid = base[order] if case["el"] % 3 else base
        shape = [(41,), (41,), (4, 10), (10, 4), (2, 5), (1, 41)][int(case["ds"] * 1e7) % 6]
        grid = O.ro(grid[:int(np.prod(shape))].reshape(shape))
        big = int(case["ds"] * 1e8) % 8 == 0
        if big:
            # a powder pattern / a whole detector image worth of s values in one call (tens of thousands of elements)
            nbig = [40001, 70000, 90000, 33000][int(case["ds"] * 1e9) % 4]
            grid = np.linspace(0.0, 2.0, nbig)
            if case["el"] % 2:
                grid = grid[: (nbig // 300) * 300].reshape(nbig // 300, 300)
            grid = O.ro(grid)
            ctx.event("array-argument-large")
        try:
            vals = np.asarray(structure.FormFactor(el, grid), float)
        except TypeError:
            vals = None          # vectorised evaluation is a convenience of the present implementation, not part of the property
            ctx.event("array-argument-unsupported (not claimed)")
        if grid.size > 1000:
            g2 = np.asarray(grid, float) ** 2
            refv = sum(float(c[i]) * np.exp(-float(c[i + 4]) * g2) for i in range(4)) + float(c[8])
        else:
            refv = np.array([_f(c, float(x)) for x in grid.ravel()]).reshape(grid.shape)
        if vals is None:
            pass
        elif vals.shape != refv.shape:
            ctx.fail("FormFactor/array-shape", "%s: FormFactor(array) returned shape %r" % (el, vals.shape))
        else:
            ctx.near("FormFactor=formula(array)", float(np.max(np.abs(vals - refv) / np.abs(refv))), 1e-13, "FormFactor/formula/" + el, "%s: FormFactor on an array differs from the formula" % el)
        ctx.event("array-argument")
        if vals is not None and not big:
            # the caller keeps ONE array of s values and refills it in place (next detector ring); it also owns the result
            hold = np.array(grid, float)
            first = structure.FormFactor(el, hold)
            harness_scribble(first)
            hold[...] = np.clip(2.0 - hold, 0.0, 2.0)
            again = np.asarray(structure.FormFactor(el, hold), float)
            ref2 = np.array([_f(c, float(x)) for x in hold.ravel()]).reshape(hold.shape)
            if again.shape != ref2.shape:
                ctx.fail("FormFactor/array-shape", "%s: FormFactor(array) returned shape %r" % (el, again.shape))
            else:
                ctx.near("FormFactor=formula(array refilled in place)", float(np.max(np.abs(again - ref2) / np.abs(ref2))), 1e-13, "FormFactor/formula/" + el,
                         "%s: FormFactor on an array that was refilled in place differs from the formula" % el)
        how = "float"
    sarg = s
    if how == "numpy":
        sarg = np.float64(s)
    elif how == "array0d":
        sarg = np.float64(s)
    elif how == "int-if-integral" and float(s).is_integer():
        sarg = int(s)
        ctx.event("integer-typed-s")
    f1 = float(structure.FormFactor(el, sarg))
    ctx.later("FormFactor", structure.FormFactor, el, float(s))
    ref = _f(c, s)
    ctx.near("FormFactor=formula(point)", abs(f1 - ref) / abs(ref), 1e-13, "FormFactor/formula/" + el, "%s at s=%r: %r vs %r" % (el, s, f1, ref))
    if not f1 > 0:
        ctx.fail("not-positive/" + el, "%s: f(%r) = %r" % (el, s, f1))
    if s2 > s:
        f2 = structure.FormFactor(el, s2)
        # strict decrease, allowing for rounding when the two values are closer than a few ulps
        if not (f2 < f1 or abs(f2 - f1) <= 8 * np.spacing(abs(f1))):
            ctx.fail("not-decreasing/" + el, "%s: f(%r)=%r -> f(%r)=%r" % (el, s, f1, s2, f2))
    if s == 0.0:
        ctx.near("|f(0)-Z|", abs(f1 - Z[el]), 0.1, "f0-not-Z/" + el, "%s: FormFactor(0) = %r, Z = %d" % (el, f1, Z[el]))
