"""C01 - cell parameters, A/B matrices, volume and sin(theta)/lambda share one metric."""
import math
import numpy as np
from hypothesis import strategies as st
from vlib import strat as S, oracles as O

ID = "C01"
SWITCH_OFF = 6        # every 6th case runs with xfab.CHECKS switched off (results must not depend on it)
TARGETED = True     # thorough tier uses hypothesis.target on the residual/tolerance ratios
RULE = ("Hypothesis: cells over the whole domain Gram>=0.02 (general / strongly oblique / Gram-boundary / "
        "conforming families), hkl in [-30,30]^3 (one case in four: [-300,300]^3), whole-number cells typed as ints (list / integer ndarray),\\0, module in {tools, laue}; oracle = metric tensor from its "
        "definition. Non-trivial = at least two angles differ from 90 deg by > 5 deg (oblique); distinct = "
        "distinct generated (cell,hkl,module) tuples")
ASSUMPTIONS = ["numpy.linalg.inv/det are correct to ~1e-13 relative on 3x3 matrices with cond < 1e8",
               "tolerance 1e-9 relative on normalised metric tensors (measured worst residual ~5e-13)"]
TOL = 1e-9


def units(tier):
    if tier == "quick":
        return [(i, 2500) for i in range(8)]
    # plain generation for the bulk, plus four small units in which Hypothesis hill-climbs on the residual/tolerance ratios
    return [(i, 50000) for i in range(16)] + [("target-%d" % i, 2500) for i in range(4)]


def strategy(tier, unit):
    return st.fixed_dictionaries({"cell": S.cells(), "hkl": S.hkls(30, big=300), "mod": st.sampled_from(["tools", "laue"]),
                                  "prev": st.one_of(st.none(), S.cells(), S.logfl(1e-9, 1e-3)), "as_array": st.booleans()})


def check(case, ctx):
    from xfab import tools, laue
    mod = tools if case["mod"] == "tools" else laue
    f = O.TWO_PI if case["mod"] == "tools" else 1.0
    cell = [x + 0.0 for x in case["cell"]]
    h = np.array(case["hkl"], float)
    G, Gs, V = O.metric(cell)
    nG, nGs = O.normalise_metric(G), O.normalise_metric(Gs)
    dG, dGs = np.sqrt(np.diag(G)), np.sqrt(np.diag(Gs))
    obl = S.is_oblique(cell)
    ctx.nontrivial(obl)
    ctx.event("oblique" if obl else "near-orthogonal")
    gd = O.gram_det(cell)
    if gd < 0.021:
        ctx.event("gram-boundary")
    m = case["mod"]
    cell_values = list(cell)
    # history element: the caller keeps ONE cell object and updates it in place (refinement loop); every function
    # must depend on the current contents only.  The object first holds another cell, is used, then overwritten.
    if case.get("prev") is not None:
        prev = case["prev"]
        if not isinstance(prev, list):          # a float: the previous cell is a tiny relative perturbation of this one
            prev = S.perturbed(cell_values, prev)
            ctx.event("previous-call-with-near-identical-cell")
        holder = np.array(prev, float) if case.get("as_array") else [float(x) for x in prev]
        for fn in (mod.form_a_mat, mod.form_b_mat, mod.cell_volume, mod.cell_invert, mod.form_a_mat_inv):
            ctx.keep("%s.%s" % (m, fn.__name__), fn(holder))
        ctx.keep("%s.sintl" % m, mod.sintl(holder, case["hkl"]))
        Bp = np.asarray(mod.form_b_mat(holder), float)
        Ap = np.asarray(mod.form_a_mat(holder), float)
        ctx.keep("%s.b_to_cell" % m, mod.b_to_cell(O.ro(Bp)))
        ctx.keep("%s.a_to_cell" % m, mod.a_to_cell(O.ro(Ap)))
        holder[:] = cell_values
        cell = holder
        ctx.event("cell-object-reused-in-place")

    elif S.is_int_typed(case["cell"]):
        # the cell as written in a script: whole numbers typed as ints (list or integer ndarray)
        cell = S.cell_arg(case["cell"], case.get("as_array"))
        ctx.event("integer-typed-cell")

    A = np.asarray(mod.form_a_mat(cell), float)
    B = np.asarray(mod.form_b_mat(cell), float)
    for name, M in (("A", A), ("B", B)):
        if M.shape != (3, 3):
            ctx.fail("shape/" + name, "%s.form_%s_mat returned shape %r" % (m, name.lower(), M.shape))
            return
        if not (M[1, 0] == 0 and M[2, 0] == 0 and M[2, 1] == 0):
            ctx.fail("not-upper-triangular/" + name, "%s: %s has non-zero below diagonal: %r" % (m, name, M.tolist()))
        if not (M[0, 0] > 0 and M[1, 1] > 0 and M[2, 2] > 0):
            ctx.fail("diagonal-not-positive/" + name, "%s: %s diagonal %r" % (m, name, np.diag(M).tolist()))
    # A'A = G, B'B = f^2 G*   (compared on the normalised tensors)
    ctx.near("AtA=G", O.maxabs((A.T @ A) / np.outer(dG, dG) - nG), TOL, "metric/A", "%s: A'A != G for cell %r" % (m, cell))
    ctx.near("BtB=G*", O.maxabs((B.T @ B) / (f * f) / np.outer(dGs, dGs) - nGs), TOL, "metric/B",
             "%s: B'B != f^2 G* for cell %r" % (m, cell))
    ctx.near("detA=V", abs(np.linalg.det(A) / V - 1), TOL, "volume/detA", "%s: det A %r != V %r" % (m, np.linalg.det(A), V))
    vol = mod.cell_volume(cell)
    ctx.near("cell_volume", abs(vol / V - 1), TOL, "volume/cell_volume", "%s: cell_volume %r != %r" % (m, vol, V))
    # sintl
    s_ref = O.stl(Gs, h)
    s = mod.sintl(cell, case["hkl"])
    ctx.later("%s.sintl" % m, mod.sintl, list(cell_values), list(case["hkl"]))
    ctx.later("%s.form_b_mat" % m, mod.form_b_mat, list(cell_values))
    ctx.near("sintl", abs(s / s_ref - 1), TOL, "sintl/closed-formula", "%s: sintl %r != %r (cell %r hkl %r)" % (m, s, s_ref, cell, case["hkl"]))
    sB = np.linalg.norm(B @ h) / (2 * f)
    ctx.near("|Bh|/2f", abs(sB / s_ref - 1), TOL, "sintl/Bh", "%s: |B.hkl|/(2f) %r != %r" % (m, sB, s_ref))
    # cell_invert = reciprocal cell of G*
    rc = O.cell_from_metric(Gs)
    ci = mod.cell_invert(cell)
    ctx.near("cell_invert", _cell_diff(ci, rc), TOL, "cell_invert", "%s: cell_invert %r != %r" % (m, list(ci), rc))
    cii = mod.cell_invert(ci)
    ctx.near("cell_invert^2", _cell_diff(cii, cell), 1e-10, "cell_invert-involution", "%s: cell_invert(cell_invert) %r != %r" % (m, list(cii), cell))
    # inverse maps
    A_ro, B_ro = O.ro(A), O.ro(B)          # the inverse maps must not modify the matrices they are given
    ctx.near("a_to_cell", _cell_diff(mod.a_to_cell(A_ro), cell), 1e-10, "a_to_cell", "%s: a_to_cell(A) %r != %r" % (m, list(mod.a_to_cell(A)), cell))
    ctx.near("b_to_cell", _cell_diff(mod.b_to_cell(B_ro), cell), 1e-10, "b_to_cell", "%s: b_to_cell(B) %r != %r" % (m, list(mod.b_to_cell(B_ro)), cell))
    Ai = np.asarray(mod.form_a_mat_inv(cell), float)
    # A^-1 A = I, scaled so that axial ratios do not matter: (Ai A) is dimensionless
    ctx.near("Ainv.A=I", O.maxabs(Ai @ A - np.eye(3)), 1e-10, "form_a_mat_inv", "%s: A^-1.A != I" % m)
    if [float(x) for x in cell] != cell_values:
        ctx.fail("argument-mutated", "%s: a function changed the caller's cell object to %r" % (m, list(cell)))


def _cell_diff(c1, c2):
    """Relative on lengths; angles compared both through their cosines (well conditioned everywhere) and directly, the
    direct difference scaled by sin(angle): an angle obtained through arccos is good to eps/sin(angle), so
    |d angle| * sin(angle) is the quantity with a uniform tolerance."""
    c1 = [float(x) for x in c1]
    c2 = [float(x) for x in c2]
    d = max(abs(c1[i] / c2[i] - 1) for i in range(3))
    for i in range(3, 6):
        a1, a2 = math.radians(c1[i]), math.radians(c2[i])
        d = max(d, abs(math.cos(a1) - math.cos(a2)), abs(a1 - a2) * max(math.sin(a2), 1e-3))
    return d
