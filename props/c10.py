"""C10 - detector pixel of a reflection lies on its scattered ray on the tilted detector."""
import math
import numpy as np
from hypothesis import strategies as st
from vlib import strat as S, oracles as O

ID = "C10"
SWITCH_OFF = 6        # every 6th case runs with xfab.CHECKS switched off (results must not depend on it)
TARGETED = True     # thorough tier uses hypothesis.target on the residual/tolerance ratios
RULE = ("Hypothesis: 2theta in (0.5,60) deg, eta in [-2pi,2pi], tilts in [-0.3,0.3]^3, distance 10..1000, pixel sizes "
        "0.01..0.5, beam centre in [-3000,3000]^2, grain offset in [-2,2]^3 (floats or whole numbers typed as ints), wavelength 0.1..2; oracle = ray/plane "
        "geometry written independently. Non-trivial = some tilt > 0.05 and grain offset > 0.1")
ASSUMPTIONS = ["pixel agreement 1e-7 relative to (1+|value|), off-ray distance 1e-9 x distance",
               "detector plane: normal = first column of R_tilt through (distance,0,0)"]


_G_HOLD = np.zeros(3)


def units(tier):
    if tier == "quick":
        return [(i, 2500) for i in range(8)]
    # plain generation for the bulk, plus four small units in which Hypothesis hill-climbs on the residual/tolerance ratios
    return [(i, 60000) for i in range(16)] + [("target-%d" % i, 2500) for i in range(4)]


def strategy(tier, unit):
    z = st.one_of(st.just(0.0), S.fl(-0.3, 0.3), S.fl(-0.3, 0.3))
    off = st.one_of(st.just(0.0), S.fl(-2, 2), S.fl(-2, 2))
    return st.fixed_dictionaries({
        "tthd": S.fl(0.5, 60.0), "eta": st.one_of(S.fl(-2 * math.pi, 2 * math.pi), S.fl(-20.0, 20.0), st.sampled_from([0.0, math.pi / 2, math.pi, -math.pi / 2, 2 * math.pi]),
                        # a hair off the axes (1e-12 .. 1e-3 rad): components of the scattered direction that are tiny but not zero
                        st.tuples(st.sampled_from([0.0, math.pi / 2, math.pi, -math.pi / 2]), S.logfl(1e-12, 1e-3), st.sampled_from([-1.0, 1.0])).map(lambda t: t[0] + t[1] * t[2])),
        "pixel_first": st.one_of(st.none(), st.tuples(S.fl(-2000, 2000), S.fl(-2000, 2000)).map(list)), "tilt": st.tuples(z, z, z).map(list),
        "L": S.logfl(10, 1000), "py": S.logfl(0.01, 0.5), "pz": S.logfl(0.01, 0.5),
        "y0": st.one_of(S.fl(-3000, 3000), st.integers(-3000, 3000)), "z0": st.one_of(S.fl(-3000, 3000), st.integers(0, 3000)),
        # grain position: floats, or whole numbers typed as Python ints (0, 0, 0 / 1, -2, 1)
        "t": st.one_of(st.tuples(off, off, off), st.tuples(off, off, off), st.tuples(st.integers(-2, 2), st.integers(-2, 2), st.integers(-2, 2))).map(list), "wl": S.fl(0.1, 2.0), "intL": st.booleans()})


def check(case, ctx):
    from xfab import detector as D, tools, laue
    tth = math.radians(case["tthd"])
    eta = case["eta"] + 0.0
    tx, ty, tz = [x + 0.0 for x in case["tilt"]]
    R = O.ro(O.Rx(tx) @ O.Ry(ty) @ O.Rz(tz))
    for mname, m in (("tools", tools), ("laue", laue)):
        Rm = np.asarray(m.detect_tilt(tx, ty, tz), float)
        ctx.near("detect_tilt=RxRyRz", O.maxabs(Rm - R), 1e-12, "detect_tilt", "%s.detect_tilt differs from RxRyRz" % mname)
    L, py, pz, y0, z0, wl = case["L"], case["py"], case["pz"], case["y0"], case["z0"], case["wl"]
    if case.get("intL"):
        L = int(round(L))            # distances and beam centres are often given as whole numbers (Python ints)
        ctx.event("integer-typed-distance")
    # history: the previous reflection of the same grain (results still held by the caller)
    _G_HOLD[:] = (2 * math.pi / wl) * (np.array([math.cos(0.2), 0.0, math.sin(0.2)]) - np.array([1.0, 0, 0]))
    ctx.keep("det_coor", D.det_coor(_G_HOLD, math.cos(0.2), wl, L, py, pz, y0, z0, R, 0.1, -0.2, 0.3))
    ctx.keep("det_coor2", D.det_coor2(0.2, 0.4, L, py, pz, y0, z0, R, 0.1, -0.2, 0.3))
    ctx.keep("detector_to_lab", D.detector_to_lab(10.0, 20.0, L, py, pz, y0, z0, R))
    t = np.array(case["t"], float) + 0.0
    ta = [x if isinstance(x, int) else float(x) + 0.0 for x in case["t"]]      # as handed to the library (ints stay ints)
    if all(isinstance(x, int) for x in ta):
        ctx.event("integer-typed-grain-position")
    v = np.array([math.cos(tth), -math.sin(tth) * math.sin(eta), math.sin(tth) * math.cos(eta)])
    Gt = O.ro((2 * math.pi / wl) * (v - np.array([1.0, 0, 0])))
    pf = case.get("pixel_first")
    if pf is not None:
        # constructive direction: choose the PIXEL first, find the laboratory point it stands for (own geometry, not the
        # library's), and derive the ray (2theta, eta) from the grain to that point; both functions must return the pixel
        loc = np.array([0.0, py * (pf[0] - y0), pz * (pf[1] - z0)])
        plab = np.array([float(L), 0.0, 0.0]) + R @ loc
        r_ = plab - t
        dist = float(np.linalg.norm(r_))
        u = r_ / dist
        tth_c = math.acos(max(-1.0, min(1.0, u[0])))
        if math.radians(0.5) < tth_c < math.radians(60.0):
            tth = tth_c
            eta = math.atan2(-u[1], u[2])
            v = np.array([math.cos(tth), -math.sin(tth) * math.sin(eta), math.sin(tth) * math.cos(eta)])
            Gt = O.ro((2 * math.pi / wl) * (v - np.array([1.0, 0, 0])))
            ctx.event("pixel-first construction")
            pc = np.asarray(D.det_coor2(tth, eta, L, py, pz, y0, z0, R, ta[0], ta[1], ta[2]), float)
            ctx.near("pixel-first/det_coor2", float(np.max(np.abs(pc - np.array(pf)) / (1 + np.abs(np.array(pf))))), 1e-7, "pixel-first/det_coor2",
                     "det_coor2 of the ray through pixel %r returns %r" % (pf, pc.tolist()))
    ctx.nontrivial(max(abs(tx), abs(ty), abs(tz)) > 0.05 and O.maxabs(t) > 0.1)
    ctx.event("tilted" if max(abs(tx), abs(ty), abs(tz)) > 0.05 else "flat")
    if int(case["wl"] * 1e6) % 3 == 0:
        # the caller keeps ONE g-vector array and refills it for every reflection (it held the previous reflection during
        # the call above)
        v_prev = np.array([math.cos(tth), -math.sin(tth) * math.sin(eta + 1.0), math.sin(tth) * math.cos(eta + 1.0)])
        _G_HOLD[:] = (2 * math.pi / wl) * (v_prev - np.array([1.0, 0, 0]))          # previous reflection of the same ring
        D.det_coor(_G_HOLD, math.cos(tth), wl, L, py, pz, y0, z0, R, ta[0], ta[1], ta[2])
        D.det_v(_G_HOLD, math.cos(tth), wl, L, py, pz, y0, z0, R, ta[0], ta[1], ta[2])
        _G_HOLD[:] = Gt
        Gt = _G_HOLD
        ctx.event("g-vector-object-refilled-in-place")
    p1 = np.asarray(D.det_coor(Gt, math.cos(tth), wl, L, py, pz, y0, z0, R, ta[0], ta[1], ta[2]), float)
    p2 = np.asarray(D.det_coor2(tth, eta, L, py, pz, y0, z0, R, ta[0], ta[1], ta[2]), float)
    if p1.shape != (2,) or p2.shape != (2,):
        ctx.fail("shape", "det_coor shapes %r %r" % (p1.shape, p2.shape))
        return
    ctx.near("det_coor=det_coor2", float(np.max(np.abs(p1 - p2) / (1 + np.abs(p2)))), 1e-7, "det_coor-vs-det_coor2",
             "det_coor %r != det_coor2 %r for the same ray" % (p1.tolist(), p2.tolist()))
    dv = np.asarray(D.det_v(Gt, math.cos(tth), wl, L, py, pz, y0, z0, R, ta[0], ta[1], ta[2]), float)
    ctx.near("det_v", O.maxabs(dv - v), 1e-12, "det_v", "det_v %r != scattered direction %r" % (dv.tolist(), v.tolist()))
    # independent intersection of the ray t + s v with the detector plane
    nrm = R[:, 0]
    s_ref = float(nrm @ (np.array([L, 0, 0]) - t) / (nrm @ v))
    p_ref = t + s_ref * v
    loc = R.T @ (p_ref - np.array([L, 0, 0]))       # coordinates in the detector frame: (0, y, z)
    pix_ref = np.array([loc[1] / py + y0, loc[2] / pz + z0])
    for name, p in (("det_coor", p1), ("det_coor2", p2)):
        ctx.near(name + "/pixel", float(np.max(np.abs(p - pix_ref) / (1 + np.abs(pix_ref)))), 1e-7, "pixel/" + name,
                 "%s %r != ray/plane intersection %r" % (name, p.tolist(), pix_ref.tolist()))
        lab = np.asarray(D.detector_to_lab(p[0], p[1], L, py, pz, y0, z0, R), float)
        r = lab - t
        s = float(r @ v)
        ctx.near(name + "/off-ray", float(np.linalg.norm(r - s * v)) / L, 1e-9, "off-ray/" + name,
                 "detector_to_lab(%s) is %g mm off the ray" % (name, np.linalg.norm(r - s * v)))
        if not s > 0:
            ctx.fail("behind-grain/" + name, "ray parameter %r not positive" % s)
        ctx.near(name + "/in-plane", abs(float(nrm @ (lab - np.array([L, 0, 0])))) / L, 1e-9, "off-plane/" + name,
                 "detector_to_lab point not in the detector plane")
