"""C11 - detector orientation flips are exact bijections, same for pixels and images."""
import math, itertools
import numpy as np
from hypothesis import strategies as st
from vlib import strat as S, oracles as O, harness

ID = "C11"
SWITCH_OFF = 6        # every 6th case runs with xfab.CHECKS switched off (results must not depend on it)
EXHAUSTIVE = True
RULE = ("exhaustive: all 81 orientation matrices over {-1,0,1}^4 x all shapes 1..8 x 1..8 x every pixel x both "
        "directions; Hypothesis: non-square shapes up to 3000 x 3000 (images up to 40x40, pixel subsets beyond), "
        "real-valued in-detector coordinates, arbitrary beam centres, eta in [0,360], radius in [1,1e4]. Non-trivial = "
        "non-square shape with a transposing orientation; 'exhaustive' refers to the 81 x 64-shape x every-pixel part")
ASSUMPTIONS = ["sizes passed as detz_size = extent along x (rows of img[x,y]) and dety_size = extent along y, as the property states",
               "eta compared modulo 360 with tolerance 1e-5 deg scaled by 1/radius-aware conditioning (arccos near +-1)"]
VALID = [(1, 0, 0, 1), (-1, 0, 0, 1), (1, 0, 0, -1), (-1, 0, 0, -1), (0, 1, 1, 0), (0, -1, -1, 0), (0, -1, 1, 0), (0, 1, -1, 0)]
TRANSPOSING_IN_PIXELMAP = {(0, -1, -1, 0), (0, -1, 1, 0), (0, 1, -1, 0), (0, 1, 1, 0)}


def units(tier):
    return [(i, 1000) for i in range(8)] if tier == "quick" else [(i, 25000) for i in range(16)]


def strategy(tier, unit):
    return st.fixed_dictionaries({
        "o": st.integers(0, 7), "nx": st.one_of(st.integers(1, 40), st.integers(1, 3000)), "ny": st.one_of(st.integers(1, 40), st.integers(1, 3000)),
        "fx": S.fl(0, 1), "fy": S.fl(0, 1), "ix": S.fl(0, 1), "iy": S.fl(0, 1),
        "y0": S.fl(-3000, 3000), "z0": S.fl(-3000, 3000), "eta": st.one_of(S.fl(0, 360), st.sampled_from([0.0, 90.0, 180.0, 270.0, 360.0]),
                                                            st.tuples(st.sampled_from([45.0, 90.0, 135.0, 180.0, 225.0, 270.0, 315.0]), S.logfl(1e-10, 1e-2), st.sampled_from([-1.0, 1.0])).map(lambda t: t[0] + t[1] * t[2])),
        "rad": st.one_of(S.logfl(1.000001, 1e4), S.fl(1.000001, 1.5))})   # radius >= 1 with a margin for the rounding of sqrt(dy^2+dz^2)


def _check_images(ctx, D, o, nx, ny, tag):
    img = np.arange(nx * ny).reshape(nx, ny) + 1
    if O.LAYOUT_F:
        img = np.asfortranarray(img)   # a column-major raw image (same pixels, other memory order)
    img.setflags(write=False)          # the transformations must not write into the caller's image
    t = D.trans_orientation(img, *o)
    if not np.array_equal(D.trans_orientation(t, *o, 'inverse'), img):
        ctx.fail("trans_orientation/inverse-after-forward", "%s o=%r shape %dx%d" % (tag, o, nx, ny))
    if not np.array_equal(D.trans_orientation(D.trans_orientation(img, *o, 'inverse'), *o), img):
        ctx.fail("trans_orientation/forward-after-inverse", "%s o=%r shape %dx%d" % (tag, o, nx, ny))
    f = D.image_flipping(img, *o)
    if not np.array_equal(D.image_flipping(f, *o, 'inverse'), img):
        ctx.fail("image_flipping/inverse-after-forward", "%s o=%r shape %dx%d" % (tag, o, nx, ny))
    if not np.array_equal(D.image_flipping(D.image_flipping(img, *o, 'inverse'), *o), img):
        ctx.fail("image_flipping/forward-after-inverse", "%s o=%r shape %dx%d" % (tag, o, nx, ny))
    if sorted(np.asarray(t).ravel().tolist()) != sorted(img.ravel().tolist()) or sorted(np.asarray(f).ravel().tolist()) != sorted(img.ravel().tolist()):
        ctx.fail("image-not-permutation", "%s o=%r: transformed image is not a permutation of the pixels" % (tag, o))
    return img, t


def _check_pixel(ctx, D, o, nx, ny, x, y, img, t, tag):
    c = np.asarray(D.xy_to_detyz([x, y], *o, dety_size=ny, detz_size=nx), float)
    ci = np.round(c).astype(int)
    ok = c.shape == (2,) and np.all(c == ci) and ci.min() >= 0
    if ok and t is not None:
        try:
            ok = t[ci[0], ci[1]] == img[x, y]
        except IndexError:
            ok = False
    elif ok:
        # large detector (no image built): only the bounds of trans_orientation's output, which has
        # shape (ny, nx) for the orientations it pre-transposes (|o11|=1) and (nx, ny) for the others
        sh = (ny, nx) if abs(o[0]) == 1 else (nx, ny)
        ok = ci[0] < sh[0] and ci[1] < sh[1]
    if not ok:
        ctx.fail("pixel-map-vs-trans_orientation", "%s o=%r shape %dx%d: xy_to_detyz(%d,%d) = %r is not where trans_orientation stores the pixel" % (tag, o, nx, ny, x, y, c.tolist()))
    b = np.asarray(D.detyz_to_xy(c, *o, dety_size=ny, detz_size=nx), float)
    if not np.array_equal(b, [x, y]):
        ctx.fail("detyz_to_xy-not-inverse", "%s o=%r shape %dx%d: detyz_to_xy(xy_to_detyz(%d,%d)) = %r" % (tag, o, nx, ny, x, y, b.tolist()))
    # other direction: start from a (dety,detz) index
    if c.shape == (2,):
        back = np.asarray(D.xy_to_detyz(np.asarray(D.detyz_to_xy([ci[0], ci[1]], *o, dety_size=ny, detz_size=nx), float), *o, dety_size=ny, detz_size=nx), float)
        if not np.array_equal(back, ci):
            ctx.fail("xy_to_detyz-not-inverse", "%s o=%r shape %dx%d: xy_to_detyz(detyz_to_xy(%r)) = %r" % (tag, o, nx, ny, ci.tolist(), back.tolist()))


def exhaustive(ctx, tier):
    npix = 0
    for o in itertools.product([-1, 0, 1], repeat=4):
        ctx.begin({"exhaustive-orientation": list(o)})
        npix += harness.guarded_call(ctx, exhaustive_one, ctx, o) or 0
    ctx.extra["exhaustive_pixel_checks"] = npix


def exhaustive_one(ctx, o):
    from xfab import detector as D
    npix = 0
    o = tuple(o)
    for _ in (0,):
        img = np.arange(12).reshape(3, 4)
        calls = (lambda: D.trans_orientation(img, *o), lambda: D.image_flipping(img, *o),
                 lambda: D.xy_to_detyz([1, 2], *o, 4, 3), lambda: D.detyz_to_xy([1, 2], *o, 4, 3),
                 lambda: D.trans_orientation(img, *o, 'inverse'), lambda: D.image_flipping(img, *o, 'inverse'))
        res = []
        for f in calls:
            try:
                f()
                res.append("ok")
            except ValueError:
                res.append("VE")
        if o in VALID:
            if set(res) != {"ok"}:
                ctx.fail("valid-orientation-rejected", "orientation %r: %r" % (o, res))
                continue
        else:
            if set(res) != {"VE"}:
                ctx.fail("invalid-orientation-accepted", "orientation %r: %r" % (o, res))
            # ... whatever the image shape (1 x 1 included) and the direction
            for nx in (1, 2, 3):
                for ny in (1, 2, 3):
                    im = np.arange(nx * ny).reshape(nx, ny)
                    for fn in (D.trans_orientation, D.image_flipping):
                        for fd in ("forward", "inverse"):
                            try:
                                fn(im, *o, fd)
                                ctx.fail("invalid-orientation-accepted", "%s accepted orientation %r for a %dx%d image (%s)" % (fn.__name__, o, nx, ny, fd))
                            except ValueError:
                                pass
                    for fn in (D.xy_to_detyz, D.detyz_to_xy):
                        try:
                            fn([0, 0], *o, ny, nx)
                            ctx.fail("invalid-orientation-accepted", "%s accepted orientation %r for detector %dx%d" % (fn.__name__, o, nx, ny))
                        except ValueError:
                            pass
            continue
        for nx in range(1, 9):
            for ny in range(1, 9):
                img2, t = _check_images(ctx, D, o, nx, ny, "exhaustive")
                if nx != ny and o in TRANSPOSING_IN_PIXELMAP:
                    ctx.nontrivial(True, key=("exh", o, nx, ny))
                for x in range(nx):
                    for y in range(ny):
                        npix += 1
                        _check_pixel(ctx, D, o, nx, ny, x, y, img2, t, "exhaustive")
    return npix


def check(case, ctx):
    from xfab import detector as D
    if "exhaustive-orientation" in case:
        exhaustive_one(ctx, case["exhaustive-orientation"])
        return
    o = VALID[case["o"]]
    nx, ny = case["nx"], case["ny"]
    big = nx * ny > 1600
    ctx.nontrivial(nx != ny and o in TRANSPOSING_IN_PIXELMAP)
    ctx.event("large-detector" if big else "small-detector")
    if not big:
        img, t = _check_images(ctx, D, o, nx, ny, "generated")
    else:
        img, t = None, None
    pts = {(min(nx - 1, int(case["ix"] * nx)), min(ny - 1, int(case["iy"] * ny))), (0, 0), (nx - 1, ny - 1), (nx - 1, 0), (0, ny - 1)}
    for (x, y) in sorted(pts):
        _check_pixel(ctx, D, o, nx, ny, x, y, img, t, "generated")
    # real-valued coordinates inside the detector
    xr, yr = case["fx"] * (nx - 1), case["fy"] * (ny - 1)
    c = np.asarray(D.xy_to_detyz([xr, yr], *o, dety_size=ny, detz_size=nx), float)
    b = np.asarray(D.detyz_to_xy(c, *o, dety_size=ny, detz_size=nx), float)
    ctx.near("real xy->detyz->xy", O.maxabs(b - [xr, yr]), 1e-9, "detyz_to_xy-not-inverse/real", "o=%r %dx%d (%r,%r) -> %r -> %r" % (o, nx, ny, xr, yr, c.tolist(), b.tolist()))
    sh = (ny, nx) if abs(o[0]) == 1 else (nx, ny)
    if not (c.min() >= -1e-9 and c[0] <= sh[0] - 1 + 1e-9 and c[1] <= sh[1] - 1 + 1e-9):
        ctx.fail("real-coordinate-leaves-detector", "o=%r %dx%d (%r,%r) -> %r" % (o, nx, ny, xr, yr, c.tolist()))
    # continuity with the integer pixel map: the real map is the affine interpolation of the corner pixels
    c00 = np.asarray(D.xy_to_detyz([0, 0], *o, dety_size=ny, detz_size=nx), float)
    if nx > 1 and ny > 1:
        c10 = np.asarray(D.xy_to_detyz([nx - 1, 0], *o, dety_size=ny, detz_size=nx), float)
        c01 = np.asarray(D.xy_to_detyz([0, ny - 1], *o, dety_size=ny, detz_size=nx), float)
        aff = c00 + case["fx"] * (c10 - c00) + case["fy"] * (c01 - c00)
        ctx.near("real map affine", O.maxabs(aff - c), 1e-9 * max(nx, ny), "pixel-map-not-affine", "o=%r" % (o,))
    d2 = np.asarray(D.detyz_to_xy([yr, xr], *o, dety_size=ny, detz_size=nx), float)
    c2 = np.asarray(D.xy_to_detyz(d2, *o, dety_size=ny, detz_size=nx), float)
    ctx.near("real detyz->xy->detyz", O.maxabs(c2 - [yr, xr]), 1e-9, "xy_to_detyz-not-inverse/real", "o=%r %dx%d" % (o, nx, ny))
    # (dety,detz) <-> (eta, radius)
    eta, rad, y0, z0 = case["eta"], case["rad"], case["y0"], case["z0"]
    ctx.keep("eta_and_radpix_to_detyz", D.eta_and_radpix_to_detyz((eta + 77.0) % 360.0, rad + 1.0, y0, z0))
    cc = np.asarray(D.eta_and_radpix_to_detyz(eta, rad, y0, z0), float)
    ref = np.array([y0 - rad * math.sin(math.radians(eta)), z0 + rad * math.cos(math.radians(eta))])
    ctx.near("eta,rad->detyz (clockwise from 12 o'clock)", O.maxabs(cc - ref) / rad, 1e-12, "eta_and_radpix_to_detyz/definition", "eta=%r rad=%r -> %r expected %r" % (eta, rad, cc.tolist(), ref.tolist()))
    e2, r2 = D.detyz_to_eta_and_radpix(cc, y0, z0)
    # the centre offset limits the precision with which the radius vector is known: ulp(|centre|)/rad
    cond = 1e-9 + 4 * np.spacing(max(abs(y0), abs(z0), rad)) / rad
    ctx.near("radius round trip", abs(r2 - rad) / rad, cond, "eta-radius/radius", "rad %r -> %r" % (rad, r2))
    if not (0 <= e2 <= 360):
        ctx.fail("eta-range", "detyz_to_eta_and_radpix eta=%r outside [0,360]" % e2)
    de = abs((e2 - eta + 180) % 360 - 180)
    # arccos near +-1: d(eta) ~ sqrt(2*eps_cos); eps_cos ~ cond
    condc = 4 * np.spacing(max(abs(y0), abs(z0), rad)) / rad + 4e-16      # relative error of cos(eta) as recovered from the pixel
    ctx.near("eta round trip", de, 1e-7 + math.degrees(2 * math.sqrt(2 * condc)), "eta-radius/eta", "eta %r -> %r (rad %r)" % (eta, e2, rad))
    c3 = np.asarray(D.eta_and_radpix_to_detyz(e2, r2, y0, z0), float)
    ctx.near("detyz round trip", O.maxabs(c3 - cc) / rad, 1e-9 + 4 * math.sqrt(2 * condc), "eta-radius/detyz", "detyz %r -> (%r,%r) -> %r" % (cc.tolist(), e2, r2, c3.tolist()))
