"""C17 - CIF and PDB ingestion reproduces what the file states."""
import os, math, tempfile, shutil, re
from fractions import Fraction as Fr
import numpy as np
from hypothesis import strategies as st
from vlib import strat as S, oracles as O, groups as GR

ID = "C17"
SWITCH_OFF = 6        # every 6th case runs with xfab.CHECKS switched off (results must not depend on it)
RULE = ("Hypothesis builds a model (cell, one of the 230 symbols with random blanks, 1-12 atoms with unique labels, element from "
        "the full table, coordinates, adp kind in {Uiso,Uani,Biso,Bani} per atom or absent for the file, optional esd suffix on "
        "any number, optional occupancy column, optional multiplicity column under either spelling, optional atom-type loop "
        "with/without dispersion columns, optional extra data_global block) and serialises it with a small CIF writer; PDB "
        "files (cells 2.5-600 A, oblique angle 0.01-30 deg from 90) with CRYST1, SCALE1-3 (6 decimals), ATOM/HETATM fixed columns, orthogonal coordinates, symbols in PDB style incl. "
        "monoclinic '1' place-holders and the symbols in which '1' is not a place-holder (P 1, P 3 1 2, P 3 2 1, P 31 1 2, ...). "
        "Oracle: the generating model evaluated on the numbers as printed. Non-trivial = CIF with esds and a non-Uiso adp kind, "
        "or PDB with a non-orthogonal cell")
ASSUMPTIONS = ["well-formedness rules of the writer (unique data names per block, one aniso loop with '.' in columns that do not apply, no '?' values, labels without underscores) keep PyCifRW (third party) from rejecting the file",
               "computed multiplicities are compared with the exact orbit only when the distinct images of the printed position are >= 1e-4 apart (the code's 1e-5 threshold is then not borderline)",
               "PDB space-group symbol: the stored symbol must resolve through sg.sg to the group the file names"]
MULT_KEYS = [None, "_atom_site_symmetry_multiplicity", "_atom_site_symetry_multiplicity"]


def units(tier):
    if tier == "quick":
        return [(["cif", i], 100) for i in range(12)] + [(["pdb", i], 300) for i in range(4)]
    return [(["cif", i], 5000) for i in range(12)] + [(["pdb", i], 20000) for i in range(4)]


def num():
    """a number as it will be printed: value, decimals, optional esd digits"""
    return st.tuples(S.fl(0, 1), st.integers(0, 5), st.one_of(st.none(), st.integers(1, 99)),
                     st.sampled_from(["f", "f", "f", "e", "E"])).map(list)


def strategy(tier, unit):
    label = st.from_regex(r"[A-Z][a-z]?[0-9]{0,3}", fullmatch=True)
    if unit[0] == "cif":
        atom = st.fixed_dictionaries({
            "el": st.integers(0, 93), "elcase": st.sampled_from(["cap", "upper", "lower"]),
            "pos": st.lists(st.one_of(num(), st.sampled_from([[0.25, 2, None], [0.5, 1, None], [0.0, 1, None], [0.75, 2, None], [1.0 / 3, 4, None]])), min_size=3, max_size=3),
            "kind": st.sampled_from(["Uiso", "Uani", "Biso", "Bani"]),
            "uiso": num(), "biso": num(), "aniso": st.lists(num(), min_size=6, max_size=6),
            "occ": num(), "mult": st.integers(1, 192)})
        return st.fixed_dictionaries({
            "k": st.just("cif"), "sgno": st.integers(1, 230), "rhomb": st.integers(0, 9), "blanks": st.lists(st.booleans(), min_size=10, max_size=10),
            "cell": st.lists(num(), min_size=6, max_size=6), "conform": st.booleans(),
            "atoms": st.lists(atom, min_size=1, max_size=12), "labels": st.lists(label, min_size=12, max_size=12, unique=True),
            "adp_present": st.sampled_from([True, True, True, False]), "occ_present": st.booleans(),
            "mult_key": st.integers(0, 2), "type_loop": st.sampled_from(["none", "disp", "nodisp"]),
            "disp": st.lists(st.tuples(num(), num()).map(list), min_size=12, max_size=12),
            "how": st.sampled_from(["path", "path", "path+blockname", "open-then-read(cifblk)", "open-then-read()", "open(blockname)-then-read()"]),
            "colperm": st.integers(0, 10 ** 6),
            "global": st.booleans(), "global_last": st.booleans(), "blockname": st.from_regex(r"[a-z][a-z0-9]{0,6}", fullmatch=True).filter(lambda s: s != "global")})
    atom = st.fixed_dictionaries({
        "el": st.integers(0, 93), "frac": st.one_of(st.tuples(S.fl(0.02, 0.98), S.fl(0.02, 0.98), S.fl(0.02, 0.98)).map(list), st.just([0.0, 0.0, 0.0])),
        "occ": S.fl(0.01, 1.0), "b": st.one_of(S.fl(0.5, 99.0), S.fl(99.0, 999.0)), "het": st.booleans(),
        "cellshift": st.sampled_from([[0, 0, 0], [0, 0, 0], [-3, 1, -2], [2, -3, 3]]), "name": st.from_regex(r"[A-Z][A-Z0-9]{0,3}", fullmatch=True)})
    return st.fixed_dictionaries({
        "k": st.just("pdb"), "sgno": st.integers(1, 230), "placeholders": st.booleans(),
        # edges from small-molecule size to virus-capsid size; the oblique angle anywhere from a hair off 90 to 120
        "abc": st.one_of(st.tuples(S.fl(5, 90), S.fl(5, 90), S.fl(5, 90)), st.tuples(S.fl(5, 90), S.fl(5, 90), S.fl(5, 90)),
                         st.tuples(S.fl(2.5, 600), S.fl(2.5, 600), S.fl(2.5, 600)), st.tuples(S.fl(300, 600), S.fl(300, 600), S.fl(300, 600))).map(list),
        "ang": st.tuples(st.one_of(S.fl(65, 115), S.fl(89, 91)), st.one_of(S.fl(91, 120), S.fl(91, 120), S.fl(90.01, 91)), S.fl(-1, 1)).map(list),
        "origin": st.one_of(st.just([0.0, 0.0, 0.0]), st.tuples(S.fl(-0.5, 0.5), S.fl(-0.5, 0.5), S.fl(-0.5, 0.5)).map(list),
                            st.sampled_from([[0.25, 0.0, 0.5], [0.0, 0.25, 0.0]])),
        "atoms": st.lists(atom, min_size=1, max_size=8)})


# ------------------------------------------------------------------ CIF
def fmt(n, lo, hi):
    """text and value-as-printed of a drawn number mapped to [lo, hi]"""
    x = lo + (hi - lo) * n[0]
    style = n[3] if len(n) > 3 else "f"
    if style == "f":
        s = "%.*f" % (n[1], x)
    else:                                   # CIF numbers may be written in exponent notation: 2.5e-05, 1.6E-3(2)
        s = ("%.*e" if style == "e" else "%.*E") % (n[1], x)
    if s.startswith("-") and float(s) == 0:
        s = s[1:]
    v = float(s)
    if n[2] is not None:
        s = s + "(%d)" % n[2]
    return s, v


def elements():
    from xfab import atomlib
    return list(atomlib.formfactor.keys())


def cif_group(case):
    """the setting a CIF case is about: one of the 230 standard ones, or (one case in ten) a rhombohedral-axes setting"""
    if case.get("rhomb", 1) == 0:
        return GR.group(GR.RHOMB[case["sgno"] % 7], "rhombohedral")
    return GR.group(case["sgno"], "standard")


def write_cif(case):
    g = cif_group(case)
    nm = g.name
    bl = case["blanks"]
    sym = "".join(ch + (" " if bl[i % len(bl)] else "") for i, ch in enumerate(nm)).strip()
    L = []
    exp = {"sgname": nm}
    if case["global"] and not case.get("global_last"):
        L += ["data_global", "_journal_name_full 'x'", ""]
    L += ["data_" + case["blockname"], "_symmetry_space_group_name_H-M '%s'" % sym]
    cell = []
    rng = [(3, 20), (3, 20), (3, 20), (60, 120), (60, 120), (60, 120)]
    if case["conform"]:
        # conforming cell for the group (so that a computed multiplicity is physically meaningful; the reader does not care)
        c = GR.conforming_cell(g, 3 + 17 * case["cell"][0][0], 3 + 17 * case["cell"][1][0], 3 + 17 * case["cell"][2][0],
                               60 + 55 * case["cell"][3][0], 60 + 60 * case["cell"][4][0], 2 * case["cell"][5][0] - 1)
    for i, key in enumerate(("length_a", "length_b", "length_c", "angle_alpha", "angle_beta", "angle_gamma")):
        n = list(case["cell"][i])
        if case["conform"]:
            lo, hi = rng[i]
            n[0] = min(1.0, max(0.0, (c[i] - lo) / (hi - lo))) if hi > lo else 0.0
            if i >= 3 and c[i] in (90.0, 120.0):
                n[0] = (c[i] - lo) / (hi - lo)
        t, v = fmt(n, *rng[i])
        L.append("_cell_%s %s" % (key, t))
        cell.append(v)
    exp["cell"] = cell
    els = elements()
    atoms = case["atoms"]
    nat = len(atoms)

    def sym_of(a):
        e = els[a["el"]]
        return {"cap": e.capitalize(), "upper": e, "lower": e.lower()}[a["elcase"]]
    used = []
    for a in atoms:
        s_ = sym_of(a)
        if s_.upper() not in [u.upper() for u in used]:
            used.append(s_)
    disp = {}
    if case["type_loop"] != "none":
        have_disp = case["type_loop"] == "disp"
        L += ["loop_", "_atom_type_symbol"] + (["_atom_type_scat_dispersion_real", "_atom_type_scat_dispersion_imag"] if have_disp else ["_atom_type_description"])
        for i, e in enumerate(used):
            if have_disp:
                t1, v1 = fmt(case["disp"][i][0], -2, 2)
                t2, v2 = fmt(case["disp"][i][1], 0, 3)
                L.append("%s %s %s" % (e, t1, t2))
                disp[e.upper()] = [v1, v2]
            else:
                L.append("%s 'x'" % e)
                disp[e.upper()] = None
    else:
        for e in used:
            disp[e.upper()] = None
    exp["dispersion"] = disp
    have_adp, have_occ = case["adp_present"], case["occ_present"]
    mk = MULT_KEYS[case["mult_key"]]
    cols = ["_atom_site_label", "_atom_site_type_symbol", "_atom_site_fract_x", "_atom_site_fract_y", "_atom_site_fract_z"]
    if have_adp:
        cols += ["_atom_site_adp_type", "_atom_site_U_iso_or_equiv", "_atom_site_B_iso_or_equiv"]
    if have_occ:
        cols.append("_atom_site_occupancy")
    if mk:
        cols.append(mk)
    # the order of the data names inside a loop is free in CIF: permute the columns (and every row accordingly)
    perm = list(range(len(cols)))
    k_ = case.get("colperm", 0)
    for i_ in range(len(perm) - 1, 0, -1):
        j_ = k_ % (i_ + 1)
        k_ //= (i_ + 1)
        perm[i_], perm[j_] = perm[j_], perm[i_]
    L += ["loop_"] + [cols[i_] for i_ in perm]
    first_row_index = len(L)
    aniso = []
    eatoms = []
    any_esd = any(n[2] is not None for n in case["cell"])
    for i, a in enumerate(atoms):
        lab = case["labels"][i]
        row = [lab, sym_of(a)]
        pos, postext = [], []
        for n in a["pos"]:
            if len(n) == 3 and n[2] is None and n[1] in (1, 2, 4) and n[0] in (0.25, 0.5, 0.0, 0.75, 1.0 / 3):
                t, v = fmt(n, 0, 1)
            else:
                t, v = fmt(n, -0.5, 1.5)
            any_esd |= n[2] is not None
            row.append(t)
            pos.append(v)
            postext.append(t.split("(")[0])
        e = {"label": lab, "atomtype": sym_of(a).upper(), "pos": pos, "postext": postext}
        k = a["kind"] if have_adp else None
        if have_adp:
            tu, vu = fmt(a["uiso"], 0.001, 0.1)
            tb, vb = fmt(a["biso"], 0.1, 8)
            row += [k, tu, tb]
            any_esd |= a["uiso"][2] is not None or a["biso"][2] is not None
            if k == "Uiso":
                e["adp_type"], e["adp"] = "Uiso", vu
            elif k == "Biso":
                e["adp_type"], e["adp"] = "Uiso", vb / (8 * math.pi ** 2)
            else:
                vals = [fmt(n, -0.05, 0.1) for n in a["aniso"]]
                any_esd |= any(n[2] is not None for n in a["aniso"])
                aniso.append((lab, k, vals))
                e["adp_type"] = "Uani"
                e["adp"] = [v for t, v in vals] if k == "Uani" else [v / (8 * math.pi ** 2) for t, v in vals]
        else:
            e["adp_type"], e["adp"] = None, 0.0
        if have_occ:
            t, v = fmt(a["occ"], 0.05, 1)
            row.append(t)
            e["occ"] = v
        else:
            e["occ"] = 1.0
        if mk:
            row.append(str(a["mult"]))
            e["symmulti"] = float(a["mult"])
        eatoms.append(e)
        L.append(" ".join(row[i_] for i_ in perm))
    if aniso:
        hasU = any(x[1] == "Uani" for x in aniso)
        hasB = any(x[1] == "Bani" for x in aniso)
        L += ["loop_", "_atom_site_aniso_label"]
        if hasU:
            L += ["_atom_site_aniso_U_%s" % ij for ij in ("11", "22", "33", "23", "13", "12")]
        if hasB:
            L += ["_atom_site_aniso_B_%s" % ij for ij in ("11", "22", "33", "23", "13", "12")]
        # the aniso loop may list the atoms in a different order than the site loop (looked up by label)
        for lab, k, vals in reversed(aniso):
            u = " ".join(t for t, v in vals) if k == "Uani" else " ".join(["."] * 6)
            bb = " ".join(t for t, v in vals) if k == "Bani" else " ".join(["."] * 6)
            L.append(lab + (" " + u if hasU else "") + (" " + bb if hasB else ""))
    if case["global"] and case.get("global_last"):
        L += ["", "data_global", "_journal_name_full 'x'"]          # the extra block may just as well come last
    exp["atoms"] = eatoms
    exp["any_esd"] = any_esd
    exp["non_uiso"] = have_adp and any(a["kind"] != "Uiso" for a in atoms)
    return "\n".join(L) + "\n", exp


def exact_multiplicity(g, fr):
    """(orbit size, well separated?) for a position given as exact Fractions"""
    orb = g.orbit(fr)
    n = len(orb)
    if n > 1:
        P = np.array([[float(x) for x in p] for p, _ in orb])
        D = P[:, None, :] - P[None, :, :]
        dist = np.abs(D - np.round(D)).sum(axis=2)
        dist[np.diag_indices(n)] = 1.0
        if dist.min() < 1e-4:
            return n, False
    return n, True


def float_multiplicity(g, pos):
    """cluster count of the images of a float position; None when some pair is borderline (1e-6..1e-4)"""
    imgs = np.array([R.astype(float) @ pos + t / 24.0 for R, t in zip(g.R, g.T24)])
    D = imgs[:, None, :] - imgs[None, :, :]
    dist = np.abs(D - np.round(D)).sum(axis=2)
    amb = (dist > 1e-6) & (dist < 1e-4)
    if amb.any():
        return None
    same = dist <= 1e-6
    # number of clusters (same is an equivalence relation here because of the gap)
    seen = np.zeros(len(imgs), bool)
    n = 0
    for i in range(len(imgs)):
        if not seen[i]:
            n += 1
            seen |= same[i]
    return n


def check_cif(case, ctx, tmp):
    from xfab import structure
    text, exp = write_cif(case)
    p = os.path.join(tmp, "structure.cif")
    with open(p, "w") as fh:
        fh.write(text)
    ctx.nontrivial(exp["any_esd"] and exp["non_uiso"])
    ctx.event("cif")
    if case["global"]:
        ctx.event("cif/extra-global-block")
    ctx.event("cif/mult-key:%s" % (MULT_KEYS[case["mult_key"]] or "absent"))
    ctx.event("cif/type-loop:" + case["type_loop"])
    GR.touch_sibling(case["sgno"], "standard")
    b = structure.build_atomlist()
    how = case.get("how", "path")
    if how == "path":
        b.CIFread(p)
    elif how == "path+blockname":
        b.CIFread(p, cifblkname=case["blockname"])
    elif how == "open-then-read(cifblk)":
        if case["mult_key"] % 2 == 0:
            # the reader object had another file open before (a decoy with another cell and atom); the block handed over
            # explicitly is the one that must be read
            decoy = os.path.join(os.path.dirname(p), "decoy.cif")
            with open(decoy, "w") as fh:
                fh.write("data_decoy\n_cell_length_a 3.1\n_cell_length_b 3.2\n_cell_length_c 3.3\n_cell_angle_alpha 90\n_cell_angle_beta 90\n"
                         "_cell_angle_gamma 90\n_symmetry_space_group_name_H-M 'P 1'\nloop_\n_atom_site_label\n_atom_site_type_symbol\n"
                         "_atom_site_fract_x\n_atom_site_fract_y\n_atom_site_fract_z\nZz1 Fe 0.1 0.2 0.3\n")
            blk = structure.build_atomlist().CIFopen(ciffile=p)
            b.CIFopen(ciffile=decoy)
            b.CIFread(cifblk=blk)
            ctx.event("cif/reader-had-another-file-open-before")
        else:
            blk = b.CIFopen(ciffile=p)
            b.CIFread(cifblk=blk)
    elif how == "open(blockname)-then-read()":
        b.CIFopen(ciffile=p, cifblkname=case["blockname"])
        b.CIFread()
    else:
        b.CIFopen(ciffile=p)
        b.CIFread()
    ctx.event("cif/call:" + how)
    al = b.atomlist
    show = text if len(text) < 1500 else text[:1500] + "..."
    if list(al.cell) != exp["cell"]:
        ctx.fail("cif/cell", "cell %r, file states %r\n%s" % (list(al.cell), exp["cell"], show))
    if al.sgname != exp["sgname"]:
        ctx.fail("cif/sgname", "sgname %r, file states %r without blanks" % (al.sgname, exp["sgname"]))
    if al.dispersion != exp["dispersion"]:
        ctx.fail("cif/dispersion", "dispersion %r, file states %r\n%s" % (al.dispersion, exp["dispersion"], show))
    if len(al.atom) != len(exp["atoms"]):
        ctx.fail("cif/atom-count", "%d atoms read, %d in the file" % (len(al.atom), len(exp["atoms"])))
        return
    g = cif_group(case)
    for a, e in zip(al.atom, exp["atoms"]):
        if a.label != e["label"]:
            ctx.fail("cif/label", "label %r vs %r" % (a.label, e["label"]))
        if a.atomtype != e["atomtype"]:
            ctx.fail("cif/element", "element %r vs %r" % (a.atomtype, e["atomtype"]))
        if [float(x) for x in a.pos] != e["pos"]:
            ctx.fail("cif/position", "%s: position %r vs %r" % (e["label"], list(a.pos), e["pos"]))
        if a.occ != e["occ"]:
            ctx.fail("cif/occupancy", "%s: occupancy %r vs %r" % (e["label"], a.occ, e["occ"]))
        if a.adp_type != e["adp_type"]:
            ctx.fail("cif/adp_type", "%s: adp_type %r vs %r" % (e["label"], a.adp_type, e["adp_type"]))
        else:
            got = np.atleast_1d(np.asarray(a.adp, float))
            want = np.atleast_1d(np.asarray(e["adp"], float))
            if got.shape != want.shape or not np.allclose(got, want, rtol=4e-16, atol=0):
                ctx.fail("cif/adp", "%s: adp %r vs %r\n%s" % (e["label"], a.adp, e["adp"], show))
        if "symmulti" in e:
            if float(a.symmulti) != e["symmulti"]:
                ctx.fail("cif/multiplicity-from-file", "%s: symmulti %r, file states %r" % (e["label"], a.symmulti, e["symmulti"]))
        else:
            fr = [Fr(t) for t in e["postext"]]          # Fraction parses decimal and exponent notation exactly
            n, sep = exact_multiplicity(g, fr)
            if sep:
                ctx.event("cif/computed-multiplicity-checked")
                if a.symmulti != n:
                    ctx.fail("cif/multiplicity-computed", "%s at %r in %s: symmulti %r, orbit has %d points" % (e["label"], e["postext"], g.name, a.symmulti, n))
            else:
                ctx.event("cif/computed-multiplicity-borderline-skipped")


# ------------------------------------------------------------------ PDB
def _all_tokenizations(rest):
    if not rest:
        return [[]]
    out = []
    j = 0
    if rest[j] == "-":
        j += 1
    ch = rest[j]
    j += 1
    ends = [j]
    if ch.isdigit() and j < len(rest) and rest[j].isdigit() and int(rest[j]) < int(ch) and rest[0] != "-":
        ends.append(j + 1)          # screw-axis subscript
    for e in ends:
        k = e
        if k < len(rest) and rest[k] == "/":
            k += 2
        for tail in _all_tokenizations(rest[k:]):
            out.append([rest[:k]] + tail)
    return out


def tokens(name, system):
    """Split an H-M short symbol into lattice letter + direction symbols ('P63/mmc' -> P 63/m m c, 'P4212' ->
    P 4 21 2).  Digit runs are ambiguous, so every split is generated and the crystallographically valid one
    (number of direction symbols for the crystal system, '1' only in trigonal/triclinic symbols, cubic second
    symbol 3 or -3, no screw axes in R lattices) is selected; exactly one must remain."""
    lat, rest = name[0], name[1:]
    cands = _all_tokenizations(rest)

    def low(x):        # a secondary / tertiary symbol: 2, 21 or a mirror/glide letter (1 only in trigonal symbols)
        return re.fullmatch(r"1|2|21|[mcnabd]", x) is not None

    def valid(t):
        n = len(t)
        if system in ("orthorhombic",) and not all(low(x) for x in t):
            return False
        if system == "tetragonal" and not (re.match(r"-?4", t[0]) and all(low(x) for x in t[1:])):
            return False
        if system == "hexagonal" and not (re.match(r"-?6", t[0]) and all(low(x) for x in t[1:])):
            return False
        if system == "trigonal" and not (re.match(r"-?3", t[0]) and all(re.fullmatch(r"1|2|m|c", x) for x in t[1:])):
            return False
        if system == "cubic" and not (len(t) >= 2 and all(low(x) for x in t[2:])):
            return False
        ones = any(x == "1" for x in t)
        screw = any(re.fullmatch(r"[2346][1-5](/.)?", x) for x in t)
        if system == "triclinic":
            return n == 1
        if system == "monoclinic":
            return n == 1
        if system == "orthorhombic":
            return n == 3 and not ones
        if system in ("tetragonal", "hexagonal"):
            return n in (1, 3) and not ones
        if system == "trigonal":
            if lat == "R":
                return n in (1, 2) and not screw and not ones
            return n in (1, 3) and t[0] not in ("1",)
        if system == "cubic":
            return n in (2, 3) and t[1] in ("3", "-3") and not ones
        return False
    good = [t for t in cands if valid(t)]
    if len(good) != 1:
        raise RuntimeError("cannot tokenise %r (%s): %r" % (name, system, good))
    return [lat] + good[0]


def write_pdb(case):
    g = GR.group(case["sgno"], "standard")
    t = tokens(g.name, g.crystal_system)
    if "".join(t) != g.name:
        raise RuntimeError("tokenizer broke %r" % g.name)
    if g.crystal_system == "monoclinic" and case["placeholders"]:
        t = [t[0], "1", t[1], "1"]
    sym = " ".join(t)
    if len(sym) > 11:
        sym = " ".join(tokens(g.name, g.crystal_system))
    if len(sym) > 11:
        return None, None
    a, b, c = [round(x, 3) for x in case["abc"]]
    cell = GR.conforming_cell(g, a, b, c, round(case["ang"][0], 2), round(case["ang"][1], 2), case["ang"][2])
    cell = [round(cell[0], 3), round(cell[1], 3), round(cell[2], 3), round(cell[3], 2), round(cell[4], 2), round(cell[5], 2)]
    G, Gs, V = O.metric(cell)
    A = np.linalg.cholesky(G).T
    Sm = np.linalg.inv(A)
    L = ["HEADER    TEST", "CRYST1%9.3f%9.3f%9.3f%7.2f%7.2f%7.2f %-11s%4d" % (cell[0], cell[1], cell[2], cell[3], cell[4], cell[5], sym, g.nsymop)]
    scale = []
    for i in range(3):
        row = "SCALE%d    %10.6f%10.6f%10.6f     %10.5f" % (i + 1, Sm[i, 0], Sm[i, 1], Sm[i, 2], case.get("origin", [0.0, 0.0, 0.0])[i])
        L.append(row)
        scale.append([float(row[10:20]), float(row[20:30]), float(row[30:40]), float(row[45:55])])
    scale = np.array(scale)
    els = elements()
    atoms = []
    for k, a_ in enumerate(case["atoms"]):
        # (atoms several cells away from the origin give coordinates that fill the 8-character fields, B >= 100 the 6-character one)
        xyz = A @ (np.array(a_["frac"], float) + np.array(a_.get("cellshift", [0, 0, 0]), float) - np.array(case.get("origin", [0.0, 0.0, 0.0]), float))
        if np.max(np.abs(xyz)) >= 999.0:
            xyz = A @ (np.array(a_["frac"], float) - np.array(case.get("origin", [0.0, 0.0, 0.0]), float))
        el = els[a_["el"]]
        name = a_["name"][:4]
        rec = "HETATM" if a_["het"] else "ATOM  "
        line = "%s%5d %-4s %3s %1s%4d    %8.3f%8.3f%8.3f%6.2f%6.2f          %2s  " % (
            rec, k + 1, name, "ALA", "A", k + 1, xyz[0], xyz[1], xyz[2], a_["occ"], a_["b"], el.rjust(2))
        L.append(line)
        px = [float(line[30:38]), float(line[38:46]), float(line[46:54])]
        atoms.append({"label": name.strip(), "atomtype": el, "pos": scale @ np.array(px + [1.0]),
                      "adp": float(line[60:66]) / (8 * math.pi ** 2), "occ": float(line[54:60])})
    exp = {"cell": [float(x) for x in cell], "sgname": g.name.lower(), "sgno": g.no, "atoms": atoms, "symbol": sym,
           "oblique": any(abs(x - 90.0) > 1e-9 for x in cell[3:6])}
    return "\n".join(L) + "\nEND\n", exp


def check_pdb(case, ctx, tmp):
    from xfab import structure, sg
    text, exp = write_pdb(case)
    if text is None:
        ctx.event("pdb/symbol-too-long-skipped")
        return
    p = os.path.join(tmp, "structure.pdb")
    with open(p, "w") as fh:
        fh.write(text)
    ctx.nontrivial(exp["oblique"])
    ctx.event("pdb")
    if any(case.get("origin", [0, 0, 0])):
        ctx.event("pdb/non-zero-SCALE-translation")
    if " 1" in exp["symbol"]:
        ctx.event("pdb/symbol-with-1-token")
    GR.touch_sibling(case["sgno"], "standard")
    b = structure.build_atomlist()
    b.PDBread(p)
    al = b.atomlist
    g = GR.group(case["sgno"], "standard")
    if list(al.cell) != exp["cell"]:
        ctx.fail("pdb/cell", "cell %r, file states %r" % (list(al.cell), exp["cell"]))
    try:
        no = sg.sg(sgname=al.sgname).no
    except KeyError:
        no = None
    if no != exp["sgno"]:
        ctx.fail("pdb/space-group", "CRYST1 symbol %r stored as %r which resolves to %r, file names Sg%d" % (exp["symbol"], al.sgname, no, exp["sgno"]))
    elif al.sgname.lower() != exp["sgname"]:      # (letter case of the stored PDB symbol is not part of the property)
        ctx.fail("pdb/sgname-spelling", "CRYST1 symbol %r stored as %r, expected %r" % (exp["symbol"], al.sgname, exp["sgname"]))
    if len(al.atom) != len(exp["atoms"]):
        ctx.fail("pdb/atom-count", "%d atoms read, %d in the file" % (len(al.atom), len(exp["atoms"])))
        return
    for a, e in zip(al.atom, exp["atoms"]):
        if a.label != e["label"]:
            ctx.fail("pdb/label", "label %r vs %r" % (a.label, e["label"]))
        if a.atomtype != e["atomtype"]:
            ctx.fail("pdb/element", "element %r vs %r" % (a.atomtype, e["atomtype"]))
        if not np.allclose(np.asarray(a.pos, float), e["pos"], rtol=0, atol=1e-12):
            ctx.fail("pdb/position", "%s: fractional %r, SCALE.xyz = %r" % (e["label"], list(a.pos), e["pos"].tolist()))
        if a.adp_type != "Uiso" or not np.isclose(a.adp, e["adp"], rtol=4e-16, atol=0):
            ctx.fail("pdb/adp", "%s: adp %r (%r), B/(8 pi^2) = %r" % (e["label"], a.adp, a.adp_type, e["adp"]))
        if a.occ != e["occ"]:
            ctx.fail("pdb/occupancy", "%s: occupancy %r vs %r" % (e["label"], a.occ, e["occ"]))
        n = float_multiplicity(g, np.asarray(e["pos"], float))
        if n is None:
            ctx.event("pdb/multiplicity-borderline-skipped")
        else:
            ctx.event("pdb/multiplicity-checked")
            if a.symmulti != n:
                ctx.fail("pdb/multiplicity", "%s at %r in %s: symmulti %r, orbit has %d points" % (e["label"], e["pos"].tolist(), g.name, a.symmulti, n))
    want = {e["atomtype"]: None for e in exp["atoms"]}
    if al.dispersion != want:
        ctx.fail("pdb/dispersion", "dispersion %r, expected %r" % (al.dispersion, want))


def check(case, ctx):
    # history: successive files are written to the SAME path (a program re-reading a file it has rewritten must see
    # the new contents); the directory is private to this process and removed again after every case
    tmp = os.path.join(tempfile.gettempdir(), "xfab_c17_%d" % os.getpid())
    os.makedirs(tmp, exist_ok=True)
    try:
        if case["k"] == "cif":
            check_cif(case, ctx, tmp)
        else:
            check_pdb(case, ctx, tmp)
    finally:
        shutil.rmtree(tmp, ignore_errors=True)
