"""C14 - xfab.tools and xfab.laue agree on everything except the documented factor 2*pi."""
import math, inspect
import numpy as np
from hypothesis import strategies as st
from vlib import strat as S, oracles as O, groups as GR, hkl as HK

ID = "C14"
SWITCH_OFF = 6        # every 6th case runs with xfab.CHECKS switched off (results must not depend on it)
RULE = ("Hypothesis: one case draws inputs for all 41 functions defined in both modules (cell over the C01 domain, rotation "
        "spec incl. near-gimbal, hkl, strain, angles, g-vector/2theta/tilts, (y,x) pairs across the 1e-8 threshold of _arctan2, "
        "a generated 26-slot syscond vector and hkl, a space-group setting with a gap-constructed shell); every function is called "
        "in both modules and compared under the convention map (B_tools = 2 pi B_laue, g_tools = 2 pi g_laue, everything else "
        "identical). The list of common functions is computed with inspect at run time and compared with the registered "
        "comparisons. Non-trivial = oblique cell, non-axis-aligned U and non-zero strain in the same case")
ASSUMPTIONS = ["relative tolerance 1e-9 per function (measured <= 5e-12); reflection lists compared as integer row sets plus their stl column",
               "tools' omega solvers get g scaled to sin(theta) (their assertion), laue's get an arbitrary positive multiple",
               "known finding K2 (tools.ubi_to_u_and_eps strain = 2pi(e+I)-I) matched by exact signature"]
TOL = 1e-9
DIMENSIONAL = {"cell_volume", "form_b_mat", "form_a_mat", "form_a_mat_inv", "sintl", "epsilon_to_b", "epsilon_to_b_old", "u_to_ubi"}
K2 = "K2-eps-2pi-scale/tools.ubi_to_u_and_eps"
REGISTERED = ['_arctan2', 'a_to_cell', 'b_to_cell', 'b_to_epsilon', 'b_to_epsilon_old', 'cell_invert', 'cell_volume', 'detect_tilt',
              'epsilon_to_b', 'epsilon_to_b_old', 'euler_to_u', 'find_omega', 'find_omega_general', 'find_omega_quart', 'find_omega_wedge',
              'form_a_mat', 'form_a_mat_inv', 'form_b_mat', 'form_omega_mat', 'form_omega_mat_general', 'genhkl', 'genhkl_all', 'genhkl_base',
              'genhkl_unique', 'quart_to_omega', 'reduce_cell', 'rod_to_u', 'sintl', 'sysabs', 'sysabs_unique', 'tth', 'tth2', 'u_to_euler',
              'u_to_rod', 'u_to_ubi', 'ub_to_u_b', 'ubi_to_cell', 'ubi_to_rod', 'ubi_to_u', 'ubi_to_u_and_eps', 'ubi_to_u_b']


def units(tier):
    return [(i, 350) for i in range(16)] if tier == "quick" else [(i, 8000) for i in range(16)]


def strategy(tier, unit):
    tilt = st.one_of(st.just(0.0), S.fl(-0.5, 0.5), S.fl(-0.5, 0.5))
    small = st.one_of(S.fl(-3e-8, 3e-8), S.fl(-1, 1), st.sampled_from([0.0, 1e-8, -1e-8, 9.9e-9, 1.01e-8]))
    cond = st.sampled_from([0, 0, 0, 2, 2, 3, 4, 6])
    return st.fixed_dictionaries({
        "cell": st.one_of(S.cells(1.0, 60.0), S.cells(1.0, 60.0), S.cells(0.5, 500.0)), "rot": S.rot_specs(2), "hkl": S.hkls(12, big=150), "eps": st.lists(S.fl(-0.1, 0.1), min_size=6, max_size=6),
        "ang": st.tuples(S.fl(-10, 10), S.fl(-10, 10), S.fl(-10, 10)).map(list),
        "inr": st.tuples(S.fl(0, 2 * math.pi), S.fl(0, math.pi), S.fl(0, 2 * math.pi)).map(list),
        "rod": st.tuples(S.fl(-3, 3), S.fl(-3, 3), S.fl(-3, 3)).map(list),
        "d": st.tuples(S.fl(-1, 1), S.fl(-1, 1), S.fl(-1, 1)).filter(lambda v: sum(x * x for x in v) > 1e-4).map(list),
        "tthd": S.fl(0.5, 150), "chi": tilt, "wedge": tilt, "scale": S.logfl(1e-2, 1e2), "wl": S.fl(0.05, 0.2),
        "atan": st.tuples(small, small).map(list),
        "syscond": st.lists(cond, min_size=26, max_size=26), "shkl": S.hkls(6, allow_zero=True),
        "hk": HK.case_strategy(0),
        # every setting, with extra weight on the intricate scan tables (Laue -1, 2/m, rhombohedral settings)
        "setting": st.one_of(st.integers(0, 236), st.integers(0, 236), st.integers(0, 14), st.integers(230, 236)),
        "b0": st.tuples(S.logfl(0.1, 10), S.logfl(0.1, 10), S.logfl(0.1, 10), S.fl(-1, 1), S.fl(-1, 1), S.fl(-1, 1)).map(list)})


def _cmp(ctx, name, a, b, scale_b=1.0, rel=TOL, what="", floor=None):
    """a: tools result, b: laue result; expects a == scale_b * b."""
    try:
        a = np.asarray(a, float)
        b = np.asarray(b, float) * scale_b
    except Exception:
        ctx.fail("differs/" + name, "%s: results are not comparable arrays" % name)
        return
    if a.shape != b.shape:
        ctx.fail("differs/" + name, "%s: shapes %r vs %r %s" % (name, a.shape, b.shape, what))
        return
    if a.size == 0:
        ctx.residual(name, 0.0, rel)
        return
    # dimensionless results (angles, strains, rotation matrices, Rodrigues vectors) are compared
    # absolutely below magnitude 1; dimensional ones (A, B, UBI, volume, stl) relative to their size
    if floor is None:
        floor = 0.0 if name in DIMENSIONAL else 1.0
    denom = max(O.maxabs(b), floor, 1e-300)
    d = O.maxabs(a - b) / denom
    if np.isnan(a).any() or np.isnan(b).any():
        d = 0.0 if np.array_equal(np.isnan(a), np.isnan(b)) and np.allclose(np.nan_to_num(a), np.nan_to_num(b), rtol=rel, atol=0) else float("nan")
    ctx.near(name, d, rel, "differs/" + name, "tools.%s and laue.%s differ (relative %g) %s" % (name, name, d, what))


def _both(ctx, name, ft, fl):
    """Call both; exceptions must agree in type."""
    ra = rb = ea = eb = None
    try:
        ra = ft()
    except Exception as e:
        ea = e
    try:
        rb = fl()
    except Exception as e:
        eb = e
    if (ea is None) != (eb is None) or (ea is not None and type(ea) is not type(eb)):
        ctx.fail("differs/" + name, "%s: tools %s, laue %s" % (name, "raised %r" % ea if ea else "returned", "raised %r" % eb if eb else "returned"))
        return None
    if ea is not None:
        ctx.event("both-raise/" + name)
        return None
    return ra, rb


def check(case, ctx):
    from xfab import tools as T, laue as L
    P2 = O.TWO_PI
    # registry vs reality (a gap in the harness, not a violation)
    ft = {n for n, f in vars(T).items() if inspect.isfunction(f) and f.__module__ == "xfab.tools"}
    fl = {n for n, f in vars(L).items() if inspect.isfunction(f) and f.__module__ == "xfab.laue"}
    common = ft & fl
    gap = sorted(common - set(REGISTERED))
    gone = sorted(set(REGISTERED) - common)
    if gap:
        ctx.extra["unregistered_common_functions"] = gap
    if gone:
        ctx.extra["registered_but_missing"] = gone
    for n in gone:
        ctx.fail("function-missing/" + n, "%s is no longer defined in both modules (tools: %s, laue: %s)" % (n, n in ft, n in fl))
    if gone:
        return
    cell = [x + 0.0 for x in case["cell"]]
    if S.is_int_typed(case["cell"]):
        cell = [int(x) for x in case["cell"]]        # whole-number cell typed as ints, handed to both modules alike
        ctx.event("integer-typed-cell")
    U = O.ro(S.build_rotation(case["rot"]) + 0.0)
    h = case["hkl"]
    eps = [x + 0.0 for x in case["eps"]]
    ctx.nontrivial(S.is_oblique(cell) and not S.rot_is_axis(U) and any(eps))
    # ---- cell / matrices
    if case["hkl"][0] % 2 == 0:
        # an earlier caller obtained the same matrices and overwrote them in place (its own copies, it thought)
        from vlib import harness as _h
        for fn in ("form_b_mat", "form_a_mat", "form_a_mat_inv", "cell_invert"):
            _h.scribble(getattr(T, fn)(cell))
            _h.scribble(getattr(L, fn)(cell))
        ctx.event("earlier-results-overwritten-by-their-caller")
    _cmp(ctx, "cell_invert", T.cell_invert(cell), L.cell_invert(cell))
    _cmp(ctx, "cell_volume", T.cell_volume(cell), L.cell_volume(cell))
    Bt, Bl = np.asarray(T.form_b_mat(cell), float), np.asarray(L.form_b_mat(cell), float)
    _cmp(ctx, "form_b_mat", Bt, Bl, P2)
    At = np.asarray(T.form_a_mat(cell), float)
    _cmp(ctx, "form_a_mat", At, L.form_a_mat(cell))
    _cmp(ctx, "form_a_mat_inv", T.form_a_mat_inv(cell), L.form_a_mat_inv(cell))
    _cmp(ctx, "a_to_cell", T.a_to_cell(At), L.a_to_cell(At))
    _cmp(ctx, "b_to_cell", T.b_to_cell(P2 * Bl), L.b_to_cell(Bl))
    _cmp(ctx, "sintl", T.sintl(cell, h), L.sintl(cell, h))
    wl = case["wl"]
    if wl * float(L.sintl(cell, h)) < 0.95:
        _cmp(ctx, "tth", T.tth(cell, h, wl), L.tth(cell, h, wl))
        gl = U @ Bl @ np.array(h, float)
        _cmp(ctx, "tth2", T.tth2(P2 * gl, wl), L.tth2(gl, wl))
    # ---- strain
    _cmp(ctx, "epsilon_to_b", T.epsilon_to_b(eps, cell), L.epsilon_to_b(eps, cell), P2)
    _cmp(ctx, "epsilon_to_b_old", T.epsilon_to_b_old(eps, cell), L.epsilon_to_b_old(eps, cell), P2)
    Bsl = np.asarray(L.epsilon_to_b(eps, cell), float)
    _cmp(ctx, "b_to_epsilon", T.b_to_epsilon(P2 * Bsl, cell), L.b_to_epsilon(Bsl, cell))
    Bol = np.asarray(L.epsilon_to_b_old(eps, cell), float)
    _cmp(ctx, "b_to_epsilon_old", T.b_to_epsilon_old(P2 * Bol, cell), L.b_to_epsilon_old(Bol, cell))
    # ---- rotations
    a1, a2, a3 = case["ang"]
    i1, i2, i3 = case["inr"]
    _cmp(ctx, "euler_to_u", T.euler_to_u(i1, i2, i3), L.euler_to_u(i1, i2, i3))
    _cmp(ctx, "form_omega_mat", T.form_omega_mat(a1), L.form_omega_mat(a1))
    _cmp(ctx, "form_omega_mat_general", T.form_omega_mat_general(a1, a2, a3), L.form_omega_mat_general(a1, a2, a3))
    _cmp(ctx, "detect_tilt", T.detect_tilt(a1, a2, a3), L.detect_tilt(a1, a2, a3))
    _cmp(ctx, "quart_to_omega", T.quart_to_omega(a1 * 30, a2, a3), L.quart_to_omega(a1 * 30, a2, a3))
    _cmp(ctx, "rod_to_u", T.rod_to_u(case["rod"]), L.rod_to_u(case["rod"]))
    r = _both(ctx, "u_to_euler", lambda: T.u_to_euler(U), lambda: L.u_to_euler(U))
    if r:
        _cmp(ctx, "u_to_euler", r[0], r[1])
    r = _both(ctx, "u_to_rod", lambda: T.u_to_rod(U), lambda: L.u_to_rod(U))
    if r:
        _cmp(ctx, "u_to_rod", r[0], r[1])
    # inputs the validators reject: tools and laue must behave alike (both raise the same error type while the switch is
    # on, both go ahead while it is off) - the switch is package-wide
    bad_e = (-0.5 - abs(a1), i2, i3)
    _both(ctx, "euler_to_u(out-of-range angle)", lambda: T.euler_to_u(*bad_e), lambda: L.euler_to_u(*bad_e))
    Ubad = np.round(np.asarray(U, float), 2) + np.array([[0.0, 0.03, 0.0], [0.0, 0.0, 0.0], [0.0, 0.0, 0.0]])
    for fn in ("u_to_ubi",):
        r_ = _both(ctx, fn + "(not a rotation)", lambda: getattr(T, fn)(Ubad, cell), lambda: getattr(L, fn)(Ubad, cell))
        if r_:
            _cmp(ctx, fn, r_[0], r_[1], what="(invalid U, checks off)", floor=0.0)
    r_ = _both(ctx, "u_to_euler(not a rotation)", lambda: T.u_to_euler(Ubad), lambda: L.u_to_euler(Ubad))
    y, x = case["atan"]
    r = _both(ctx, "_arctan2", lambda: T._arctan2(y, x), lambda: L._arctan2(y, x))
    if r:
        _cmp(ctx, "_arctan2", r[0], r[1], what="(y=%r, x=%r)" % (y, x))
    # ---- UBI
    ubit, ubil = np.asarray(T.u_to_ubi(U, cell), float), np.asarray(L.u_to_ubi(U, cell), float)
    _cmp(ctx, "u_to_ubi", ubit, ubil)
    ubi = ubil
    _cmp(ctx, "ubi_to_cell", T.ubi_to_cell(ubi), L.ubi_to_cell(ubi))
    _cmp(ctx, "ubi_to_u", T.ubi_to_u(ubi), L.ubi_to_u(ubi))
    if O.rot_angle_deg(U) < 179.9:
        _cmp(ctx, "ubi_to_rod", T.ubi_to_rod(ubi), L.ubi_to_rod(ubi), rel=1e-7)
    (Ut, Btt), (Ul, Bll) = T.ubi_to_u_b(ubi), L.ubi_to_u_b(ubi)
    _cmp(ctx, "ubi_to_u_b", Ut, Ul, what="(U)")
    _cmp(ctx, "ubi_to_u_b", Btt, Bll, P2, what="(B)", floor=0.0)
    b0 = case["b0"]
    B0 = np.array([[b0[0], b0[3] * b0[0], b0[4] * b0[0]], [0, b0[1], b0[5] * b0[1]], [0, 0, b0[2]]])
    (Ut, Btt), (Ul, Bll) = T.ub_to_u_b(U @ B0), L.ub_to_u_b(U @ B0)
    _cmp(ctx, "ub_to_u_b", Ut, Ul, what="(U)")
    _cmp(ctx, "ub_to_u_b", Btt, Bll, what="(B)", floor=0.0)
    # ubi_to_u_and_eps on the UBI of the strained lattice (identical UBI in both conventions)
    ubis = np.linalg.inv(U @ Bsl)
    (Ut, et), (Ul, el) = T.ubi_to_u_and_eps(ubis, cell), L.ubi_to_u_and_eps(ubis, cell)
    _cmp(ctx, "ubi_to_u_and_eps", Ut, Ul, what="(U)")
    et, el = np.asarray(et, float), np.asarray(el, float)
    if O.maxabs(et - el) > 1e-8:
        I6 = np.array([1, 0, 0, 1, 0, 1.0])
        if O.maxabs(et - (P2 * (el + I6) - I6)) <= 1e-7 and O.maxabs(el - np.array(eps)) <= 1e-8:
            ctx.fail(K2, "tools.ubi_to_u_and_eps strain %r vs laue %r for the same UBI: tools = 2pi(e+I)-I" % (et.tolist(), el.tolist()))
        else:
            ctx.fail("differs/ubi_to_u_and_eps", "strain: tools %r laue %r (not the known 2pi signature)" % (et.tolist(), el.tolist()))
    # ---- reduce_cell (cells with moderate axial ratios so that the default range is meaningful)
    _cmp(ctx, "reduce_cell", T.reduce_cell(cell), L.reduce_cell(cell))
    # ---- omega solvers
    d = np.array(case["d"], float)
    d /= np.linalg.norm(d)
    tth = math.radians(case["tthd"])
    g = O.ro(math.sin(tth / 2) * d)
    gl = O.ro(g * case["scale"])
    chi, wedge = case["chi"] + 0.0, case["wedge"] + 0.0
    for name, ca, cb in (("find_omega_general", lambda: T.find_omega_general(g, tth, chi, wedge), lambda: L.find_omega_general(gl, tth, chi, wedge)),
                         ("find_omega_quart", lambda: T.find_omega_quart(g, tth, chi, wedge), lambda: L.find_omega_quart(gl, tth, chi, wedge)),
                         ("find_omega_wedge", lambda: T.find_omega_wedge(g, tth, wedge), lambda: L.find_omega_wedge(gl, tth, wedge))):
        (ot, et_), (ol, el_) = ca(), cb()
        # near tangency the existence decision itself is a rounding matter: compare only when both agree on the count
        ot, ol = np.atleast_1d(np.asarray(ot, float)), np.atleast_1d(np.asarray(ol, float))
        if len(ot) != len(ol):
            if _near_tangent(name, g, tth, chi, wedge):
                ctx.event("tangent-count-differs(not claimed)")
            else:
                ctx.fail("differs/" + name, "%s: tools returns %d solutions, laue %d" % (name, len(ot), len(ol)))
            continue
        if len(ot):
            da = max(O.ang_diff(a, b) for a, b in zip(ot, ol))
            de = max(O.ang_diff(a, b) for a, b in zip(np.atleast_1d(et_), np.atleast_1d(el_)))
            amp = _cond(name, g, tth, chi, wedge)
            ctx.near(name, max(da, de), 1e-9 * amp, "differs/" + name, "%s: omega/eta differ by %g between tools and laue" % (name, max(da, de)))
    ot, ol = np.atleast_1d(T.find_omega(g, tth)), np.atleast_1d(L.find_omega(gl, tth))
    if len(ot) != len(ol):
        if _near_tangent("find_omega", g, tth, 0, 0):
            ctx.event("tangent-count-differs(not claimed)")
        else:
            ctx.fail("differs/find_omega", "find_omega: tools %d solutions, laue %d" % (len(ot), len(ol)))
    elif len(ot):
        ctx.near("find_omega", max(O.ang_diff(a, b) for a, b in zip(ot, ol)), 1e-9 * _cond("find_omega", g, tth, 0, 0), "differs/find_omega", "find_omega differs")
    # ---- systematic absences on generated condition vectors
    sc = case["syscond"]
    sh = case["shkl"]
    for cs, cc in (("triclinic", "standard"), ("cubic", "standard"), ("hexagonal", "standard"), ("trigonal", "rhombohedral")):
        a, b = T.sysabs(sh, sc, cs, cc), L.sysabs(sh, sc, cs, cc)
        if a != b:
            ctx.fail("differs/sysabs", "sysabs(%r, %r, %r, %r): tools %r laue %r" % (sh, sc, cs, cc, a, b))
    a, b = T.sysabs_unique(sh, sc), L.sysabs_unique(sh, sc)
    if a != b:
        ctx.fail("differs/sysabs_unique", "sysabs_unique(%r, %r): tools %r laue %r" % (sh, sc, a, b))
    # ---- reflection generation
    hk = dict(case["hk"], setting=case["setting"])
    if hk.get("max_points"):
        hk["max_points"] = 6000          # (C05/C06 go to 40000; here every list is generated ~20 times per case)
    B = HK.build(hk, max_points=1500 if (hk["setting"] < 15 or hk["setting"] >= 230) else 600)
    if B.ok:
        for fn in ("genhkl_unique", "genhkl_all"):
            np.random.seed(hk["npseed"])
            a = np.asarray(getattr(T, fn)(B.cell, B.smin, B.smax, output_stl=True, **B.kw), float)
            np.random.seed(hk["npseed"])
            b = np.asarray(getattr(L, fn)(B.cell, B.smin, B.smax, output_stl=True, **B.kw), float)
            _cmp_refl(ctx, fn, a, b)
        g_ = B.g
        a = np.asarray(T.genhkl_base(B.cell, g_.syscond, B.smin, B.smax, g_.crystal_system, g_.Laue, g_.cell_choice, True), float)
        b = np.asarray(L.genhkl_base(B.cell, g_.syscond, B.smin, B.smax, g_.crystal_system, g_.Laue, g_.cell_choice, True), float)
        _cmp_refl(ctx, "genhkl_base", a, b)
        # every documented value of the optional output_stl argument (None, False, True), also by keyword
        for ostl in ((None, False, 0, 1) if hk["npseed"] % 3 == 0 else ()):
            a = np.asarray(T.genhkl_base(B.cell, g_.syscond, B.smin, B.smax, g_.crystal_system, g_.Laue, g_.cell_choice, output_stl=ostl), float)
            b = np.asarray(L.genhkl_base(B.cell, g_.syscond, B.smin, B.smax, g_.crystal_system, g_.Laue, g_.cell_choice, output_stl=ostl), float)
            if a.shape != b.shape or not np.array_equal(a, b):
                ctx.fail("differs/genhkl_base", "genhkl_base(output_stl=%r): tools returns shape %r, laue %r (or different values)" % (ostl, a.shape, b.shape))
            a = np.asarray(T.genhkl(B.cell, g_.syscond, 0.0, min(B.smax, 0.2), g_.crystal_system, output_stl=ostl), float)
            b = np.asarray(L.genhkl(B.cell, g_.syscond, 0.0, min(B.smax, 0.2), g_.crystal_system, output_stl=ostl), float)
            if a.shape != b.shape or not np.array_equal(a, b):
                ctx.fail("differs/genhkl", "genhkl(output_stl=%r): tools returns shape %r, laue %r (or different values)" % (ostl, a.shape, b.shape))
        if B.kw.get("sgno") is not None or "sgname" in B.kw:
            # both identifiers given (a redundant but consistent pair): whatever the precedence, both modules must agree
            kw2 = dict(B.kw)
            if "sgname" in kw2:
                kw2["sgno"] = g_.no
            else:
                kw2["sgname"] = g_.name if g_.cell_choice != "rhombohedral" else (g_.name if g_.name.lower().endswith("r") else g_.name + "r")
            for fn in ("genhkl_unique", "genhkl_all"):
                np.random.seed(hk["npseed"])
                a = np.asarray(getattr(T, fn)(B.cell, B.smin, B.smax, **kw2), float)
                np.random.seed(hk["npseed"])
                b = np.asarray(getattr(L, fn)(B.cell, B.smin, B.smax, **kw2), float)
                if a.shape != b.shape or not np.array_equal(a, b):
                    ctx.fail("differs/" + fn, "%s with both sgname and sgno given (%r): tools returns shape %r, laue %r (or different values)" % (fn, kw2, a.shape, b.shape))
        for fn in (("genhkl_unique", "genhkl_all") if hk["npseed"] % 3 == 1 else ()):
            for ostl in (False, True):
                np.random.seed(hk["npseed"])
                a = np.asarray(getattr(T, fn)(B.cell, B.smin, B.smax, output_stl=ostl, **B.kw), float)
                np.random.seed(hk["npseed"])
                b = np.asarray(getattr(L, fn)(B.cell, B.smin, B.smax, output_stl=ostl, **B.kw), float)
                if a.shape != b.shape:
                    ctx.fail("differs/" + fn, "%s(output_stl=%r): tools returns shape %r, laue %r" % (fn, ostl, a.shape, b.shape))
        # generated condition vector through the scan as well (only lattice-type slots + a zonal one, any Laue class)
        a = np.asarray(T.genhkl_base(B.cell, sc, B.smin, B.smax, g_.crystal_system, g_.Laue, g_.cell_choice, True), float)
        b = np.asarray(L.genhkl_base(B.cell, sc, B.smin, B.smax, g_.crystal_system, g_.Laue, g_.cell_choice, True), float)
        _cmp_refl(ctx, "genhkl_base", a, b)
        smx = min(B.smax, 0.25)
        a = np.asarray(T.genhkl(B.cell, g_.syscond, min(B.smin, smx / 2), smx, g_.crystal_system, True), float)
        b = np.asarray(L.genhkl(B.cell, g_.syscond, min(B.smin, smx / 2), smx, g_.crystal_system, True), float)
        _cmp_refl(ctx, "genhkl", a, b)
        ctx.event("reflection-lists-compared")


def _cmp_refl(ctx, name, a, b):
    if a.shape != b.shape:
        ctx.fail("differs/" + name, "%s: tools returns %r rows, laue %r" % (name, a.shape, b.shape))
        return
    if a.size == 0:
        return
    ka = sorted(map(tuple, np.round(a[:, :3]).astype(int).tolist()))
    kb = sorted(map(tuple, np.round(b[:, :3]).astype(int).tolist()))
    if ka != kb or not np.array_equal(a[:, :3], np.round(a[:, :3])) or not np.array_equal(b[:, :3], np.round(b[:, :3])):
        ctx.fail("differs/" + name, "%s: reflection lists differ between tools and laue" % name)
        return
    sa, sb = np.sort(a[:, 3]), np.sort(b[:, 3])
    ctx.near(name + "/stl", O.maxabs(sa / sb - 1), 1e-12, "differs/" + name, "%s: stl columns differ" % name)


def _abc(name, g, tth, chi, wedge):
    def build(o):
        if name == "find_omega_general":
            return O.Rx(chi) @ O.Ry(wedge) @ O.Rz(o)
        if name == "find_omega_quart":
            P = O.Rx(chi) @ O.Ry(wedge)
            return P @ O.Rz(o) @ P.T
        if name == "find_omega_wedge":
            return O.Ry(-wedge) @ O.Rz(o)
        return O.Rz(o)
    M0, M1, M2 = (build(x) @ g for x in (0.0, math.pi / 2, math.pi))
    C = (M0[0] + M2[0]) / 2
    return M0[0] - C, M1[0] - C, -math.sin(tth / 2) ** 2 - C


def _near_tangent(name, g, tth, chi, wedge):
    A, B, rhs = _abc(name, g, tth, chi, wedge)
    amp = math.hypot(A, B)
    return amp < 1e-12 or abs(abs(rhs) - amp) <= 1e-6 * amp


def _cond(name, g, tth, chi, wedge):
    """amplification of rounding near tangency: d(omega) ~ eps / sqrt(1 - (rhs/amp)^2)"""
    A, B, rhs = _abc(name, g, tth, chi, wedge)
    amp = math.hypot(A, B)
    if amp < 1e-12:
        return 1e12
    q = 1 - min(1.0, (rhs / amp) ** 2)
    return 1.0 / max(math.sqrt(q), 1e-6) / max(amp / max(np.linalg.norm(g), 1e-300), 1e-6)
