"""C13 - strain and strained B are exact inverses; UBI yields back U and strain."""
import math
import numpy as np
from hypothesis import strategies as st
from vlib import strat as S, oracles as O

ID = "C13"
SWITCH_OFF = 6        # every 6th case runs with xfab.CHECKS switched off (results must not depend on it)
TARGETED = True     # thorough tier uses hypothesis.target on the residual/tolerance ratios
RULE = ("Hypothesis: cell over the C01 domain x six strain components in [-0.1,0.1] (with weight on 0 and on +-0.1) x "
        "rotation spec x module. Non-trivial = |eps|_inf > 0.01 with an oblique cell and a non-axis-aligned U")
ASSUMPTIONS = ["tolerance 1e-9 on strains (measured 1e-13), relative to max|B| on B matrices",
               "known finding K2 is matched by call site AND exact signature eps_returned = 2pi(e+I)-I within 1e-9; the same function "
               "must still return e for the UBI divided by 2pi, so its strain algebra stays under test"]
TOL = 1e-9
K2 = "K2-eps-2pi-scale/tools.ubi_to_u_and_eps"


def units(tier):
    if tier == "quick":
        return [(i, 1250) for i in range(8)]
    # plain generation for the bulk, plus four small units in which Hypothesis hill-climbs on the residual/tolerance ratios
    return [(i, 40000) for i in range(16)] + [("target-%d" % i, 2500) for i in range(4)]


def strategy(tier, unit):
    e = st.one_of(S.fl(-0.1, 0.1), S.fl(-0.1, 0.1), st.sampled_from([0.0, 0.1, -0.1]), S.fl(-1e-4, 1e-4))
    return st.fixed_dictionaries({"cell": S.cells(), "eps": st.lists(e, min_size=6, max_size=6), "rot": S.rot_specs(1),
                                  "mod": st.sampled_from(["tools", "laue"]), "as_array": st.booleans(),
                                  "prev": st.one_of(st.none(), S.cells(), S.logfl(1e-9, 1e-3)), "cell_as_array": st.booleans()})


def _sym6(E):
    return np.array([E[0, 0], E[0, 1], E[0, 2], E[1, 1], E[1, 2], E[2, 2]])


def check(case, ctx):
    from xfab import tools, laue
    m = case["mod"]
    mod = tools if m == "tools" else laue
    f = O.TWO_PI if m == "tools" else 1.0
    cell = [x + 0.0 for x in case["cell"]]
    eps = np.array(case["eps"], float) + 0.0
    U = S.build_rotation(case["rot"]) + 0.0
    ctx.nontrivial(O.maxabs(eps) > 0.01 and S.is_oblique(cell) and not S.rot_is_axis(U))
    ctx.event("zero-strain" if not np.any(eps) else "strained")
    # history: the caller keeps ONE cell object; it held another (or a minutely different) cell during the previous
    # strain evaluation and was then updated in place
    if case.get("prev") is not None:
        prev = case["prev"] if isinstance(case["prev"], list) else S.perturbed(cell, case["prev"])
        holder = np.array(prev, float) if case.get("cell_as_array") else [float(x) for x in prev]
        Bp = ctx.keep("%s.epsilon_to_b(previous cell)" % m, mod.epsilon_to_b(eps.tolist(), holder))
        ctx.keep("%s.b_to_epsilon(previous cell)" % m, mod.b_to_epsilon(O.ro(Bp), holder))
        ctx.keep("%s.epsilon_to_b_old(previous cell)" % m, mod.epsilon_to_b_old(eps.tolist(), holder))
        holder[:] = cell
        cell_values = list(cell)
        cell = holder
        ctx.event("cell-object-reused-in-place")
    elif S.is_int_typed(case["cell"]):
        cell = S.cell_arg(case["cell"], case.get("cell_as_array"))
        ctx.event("integer-typed-cell")
    B0 = np.asarray(mod.form_b_mat(cell), float)
    sc = O.maxabs(B0)
    # the strain is handed over the way a caller holds it: a list or (half of the cases) one float ndarray that is
    # reused for every call below; no function may change its arguments
    eps_arg = eps.copy() if case.get("as_array", True) else eps.tolist()
    B = np.asarray(mod.epsilon_to_b(eps_arg, cell), float)
    if O.maxabs(np.asarray(eps_arg, float) - eps) > 0:
        ctx.fail("argument-mutated/epsilon_to_b", "%s.epsilon_to_b changed the caller's strain %r -> %r" % (m, eps.tolist(), list(eps_arg)))
        eps_arg = eps.copy()
    if B.shape != (3, 3):
        ctx.fail("shape/epsilon_to_b", "shape %r" % (B.shape,))
        return
    ctx.near("B upper triangular", O.maxabs(np.tril(B, -1)) / sc, 1e-12, "epsilon_to_b/not-upper-triangular", "%s.epsilon_to_b result not upper triangular" % m)
    Bkeep = B.copy()
    e1 = np.asarray(mod.b_to_epsilon(B, cell), float)
    if O.maxabs(B - Bkeep) > 0:
        ctx.fail("argument-mutated/b_to_epsilon", "%s.b_to_epsilon changed the caller's B matrix" % m)
        B = Bkeep
    ctx.near("b_to_epsilon(epsilon_to_b(e))=e", O.maxabs(e1 - eps), TOL, "roundtrip/eps-B-eps", "%s: b_to_epsilon(epsilon_to_b(%r)) = %r" % (m, eps.tolist(), e1.tolist()))
    T = B0 @ np.linalg.inv(B)
    Edef = _sym6(0.5 * (T + T.T) - np.eye(3))
    ctx.near("b_to_epsilon=sym(B0.Binv)-I", O.maxabs(e1 - Edef), TOL, "b_to_epsilon/definition", "%s.b_to_epsilon differs from sym(B0 inv(B)) - I" % m)
    ctx.near("eps(0)->B0", O.maxabs(np.asarray(mod.epsilon_to_b([0.0] * 6, cell), float) - B0) / sc, TOL, "epsilon_to_b/zero-strain", "%s.epsilon_to_b(0) != form_b_mat" % m)
    Gs_ = O.metric([float(x) for x in cell])[1]
    Bz = np.asarray(mod.epsilon_to_b([0.0] * 6, cell), float)
    ctx.near("eps(0)->B'B=f^2G*", O.maxabs(Bz.T @ Bz / (f * f) - Gs_) / O.maxabs(Gs_), 1e-9, "epsilon_to_b/zero-strain-metric", "%s.epsilon_to_b(0)'s metric is not the reciprocal metric of the cell" % m)
    # B -> eps -> B for a B obtained from a strained cell (= B of the strained cell, upper triangular)
    scell = mod.b_to_cell(B)
    Bs = np.asarray(mod.form_b_mat(scell), float)
    es = mod.b_to_epsilon(Bs, cell)
    B2 = np.asarray(mod.epsilon_to_b(es, cell), float)
    ctx.near("epsilon_to_b(b_to_epsilon(B))=B", O.maxabs(B2 - Bs) / sc, 1e-8, "roundtrip/B-eps-B", "%s: epsilon_to_b(b_to_epsilon(B)) != B" % m)
    # _old pair
    Bo = np.asarray(mod.epsilon_to_b_old(eps_arg, cell), float)
    if O.maxabs(np.asarray(eps_arg, float) - eps) > 0:
        ctx.fail("argument-mutated/epsilon_to_b_old", "%s.epsilon_to_b_old changed the caller's strain" % m)
        eps_arg = eps.copy()
    # second call with the same (unchanged) object must give the same matrix
    B_again = np.asarray(mod.epsilon_to_b(eps_arg, cell), float)
    ctx.near("epsilon_to_b repeatable", O.maxabs(B_again - Bkeep) / sc, 0.0, "not-repeatable/epsilon_to_b", "%s.epsilon_to_b gives a different B on the second call with the same strain object" % m)
    eo = np.asarray(mod.b_to_epsilon_old(Bo, cell), float)
    ctx.near("old: eps->B->eps", O.maxabs(eo - eps), 1e-8, "roundtrip-old/eps-B-eps", "%s: b_to_epsilon_old(epsilon_to_b_old(e)) = %r != %r" % (m, eo.tolist(), eps.tolist()))
    ctx.near("old: B upper triangular", O.maxabs(np.tril(Bo, -1)) / sc, 1e-12, "epsilon_to_b_old/not-upper-triangular", "%s" % m)
    ctx.near("old: eps(0)->B0", O.maxabs(np.asarray(mod.epsilon_to_b_old([0.0] * 6, cell), float) - B0) / sc, 1e-8, "epsilon_to_b_old/zero-strain", "%s" % m)
    Bo2 = np.asarray(mod.epsilon_to_b_old(eo.tolist(), cell), float)
    ctx.near("old: B->eps->B", O.maxabs(Bo2 - Bo) / sc, 1e-8, "roundtrip-old/B-eps-B", "%s" % m)
    # UBI in the module's own convention (as produced by u_to_ubi): f * inv(U.B)
    ubi = f * np.linalg.inv(U @ B)
    # cross-check the convention against u_to_ubi itself on the strained cell
    ubi_lib = np.asarray(mod.u_to_ubi(U, scell), float)
    ctx.near("ubi convention", O.maxabs(ubi_lib @ U @ Bs - f * np.eye(3)), 1e-8, "u_to_ubi/convention", "%s.u_to_ubi(U,cell).U.B != f.I" % m)
    ubi_keep = ubi.copy()
    U2, e2 = mod.ubi_to_u_and_eps(ubi, cell)
    if O.maxabs(ubi - ubi_keep) > 0:
        ctx.fail("argument-mutated/ubi_to_u_and_eps", "%s.ubi_to_u_and_eps changed the caller's UBI" % m)
        ubi = ubi_keep
    U2, e2 = np.asarray(U2, float), np.asarray(e2, float)
    ctx.near("ubi_to_u_and_eps/U", O.maxabs(U2 - U), 1e-8, "ubi_to_u_and_eps/U", "%s.ubi_to_u_and_eps U differs by %g" % (m, O.maxabs(U2 - U)))
    dev = O.maxabs(e2 - eps)
    if dev > 1e-8:
        I6 = np.array([1, 0, 0, 1, 0, 1.0])
        sig = O.TWO_PI * (eps + I6) - I6
        if m == "tools" and O.maxabs(e2 - sig) <= 1e-8:
            # K2 signature; the strain algebra itself must still be right for the 2pi-free UBI
            U3, e3 = mod.ubi_to_u_and_eps(ubi / O.TWO_PI, cell)
            if O.maxabs(np.asarray(e3, float) - eps) <= 1e-8 and O.maxabs(np.asarray(U3, float) - U) <= 1e-8:
                ctx.fail(K2, "tools.ubi_to_u_and_eps(tools-convention UBI) returns strain 2pi(e+I)-I instead of e; e=%r returned %r" % (eps.tolist(), e2.tolist()))
            else:
                ctx.fail("ubi_to_u_and_eps/eps", "tools.ubi_to_u_and_eps wrong also for UBI/2pi: %r vs %r" % (list(e3), eps.tolist()))
        else:
            ctx.fail("ubi_to_u_and_eps/eps", "%s.ubi_to_u_and_eps strain %r != %r" % (m, e2.tolist(), eps.tolist()))
    else:
        ctx.residual("ubi_to_u_and_eps/eps", dev, 1e-8)
