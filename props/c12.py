"""C12 - lattice symmetry operators form the right groups; misorientation respects them."""
import math, itertools
import numpy as np
from hypothesis import strategies as st
from vlib import strat as S, oracles as O, harness

ID = "C12"
TARGETED = True     # thorough tier uses hypothesis.target on the residual/tolerance ratios
EXHAUSTIVE = True
RULE = ("exhaustive: systems 1..7, every operator and every ordered pair (closure, inverses, duplicates, unimodularity, "
        "pairing rot[i].B.perm[i]=B, cache); Hypothesis: pairs of rotation specs (plus a common rotation), crystal "
        "system, symmetry-operator indices and a conforming cell for both B conventions. Non-trivial = system >= 4 and "
        "U1'U2 more than 1 deg from every symmetry operator; 'exhaustive' refers to the operator-table part")
ASSUMPTIONS = ["angles compared through their cosines at 1e-12 (arccos is ill-conditioned at 0/180 deg)",
               "conforming cells: 1 triclinic any, 2 monoclinic-b, 3 orthorhombic, 4 tetragonal, 5/6 hexagonal axes gamma=120, 7 cubic"]
ORDERS = {1: 1, 2: 2, 3: 4, 4: 8, 5: 6, 6: 12, 7: 24}


def units(tier):
    if tier == "quick":
        return [(i, 1750) for i in range(8)]
    # plain generation for the bulk, plus four small units in which Hypothesis hill-climbs on the residual/tolerance ratios
    return [(i, 40000) for i in range(16)] + [("target-%d" % i, 2500) for i in range(4)]


def conf_cell(system, a, b, c, al, be, ga_u):
    if system == 1:
        return S._general_cell([a, b, c], al, be, ga_u, 0.05)
    if system == 2:
        return [a, b, c, 90.0, be, 90.0]
    if system == 3:
        return [a, b, c, 90.0, 90.0, 90.0]
    if system == 4:
        return [a, a, c, 90.0, 90.0, 90.0]
    if system in (5, 6):
        return [a, a, c, 90.0, 90.0, 120.0]
    return [a, a, a, 90.0, 90.0, 90.0]


def strategy(tier, unit):
    return st.fixed_dictionaries({
        "sys": st.integers(1, 7), "u1": S.rot_specs(1), "u2": S.rot_specs(1), "q": S.rot_specs(1),
        "small": st.one_of(st.none(), S.logfl(1e-9, 1e-1)),
        "j": st.integers(0, 23), "k": st.integers(0, 23),
        "abc": st.tuples(S.logfl(1, 30), S.logfl(1, 30), S.logfl(1, 30)).map(list),
        "ang": st.tuples(S.fl(50, 130), S.fl(50, 130), S.fl(-1, 1)).map(list),
        "dtype": st.sampled_from(["float64", "float64", "float32", "int-if-axis-aligned"]),
        "checks_off": st.sampled_from([False, False, True])})


def exhaustive(ctx, tier):
    from xfab import symmetry
    n_ops = 0
    for k in range(1, 8):
        ctx.begin({"exhaustive-system": k})
        n_ops += harness.guarded_call(ctx, exhaustive_one, ctx, k) or 0
    ctx.begin({"exhaustive-system": 0})
    for bad in (0, 8, -1, 100):
        for fn in (symmetry.permutations, symmetry.rotations):
            try:
                fn(bad)
                ctx.fail("out-of-range-accepted", "%s(%d) did not raise ValueError" % (fn.__name__, bad))
            except ValueError:
                pass
    ctx.extra["exhaustive_operator_pairs"] = n_ops


def exhaustive_one(ctx, k):
    from xfab import symmetry
    n_ops = 0
    if k == 0:
        return 0
    for _ in (0,):
        P = np.asarray(symmetry.permutations(k), float)
        R = np.asarray(symmetry.rotations(k), float)
        N = ORDERS[k]
        if P.shape != (N, 3, 3) or R.shape != (N, 3, 3):
            ctx.fail("order/%d" % k, "system %d: permutations %r rotations %r, expected order %d" % (k, P.shape, R.shape, N))
            continue
        if not np.array_equal(P, np.round(P)):
            ctx.fail("perm-not-integer/%d" % k, "system %d permutations not integer" % k)
        dets = np.round(np.linalg.det(P)).astype(int)
        if not np.all(np.abs(np.linalg.det(P)) - 1 < 1e-12) or not np.all(np.abs(dets) == 1):
            ctx.fail("perm-not-unimodular/%d" % k, "system %d permutation determinants %r" % (k, np.linalg.det(P).tolist()))
        keys = {tuple(np.round(p).astype(int).ravel()) for p in P}
        if len(keys) != N:
            ctx.fail("perm-duplicates/%d" % k, "system %d has duplicate permutations" % k)
        if tuple(np.eye(3, dtype=int).ravel()) not in keys:
            ctx.fail("perm-no-identity/%d" % k, "system %d lacks the identity" % k)
        for i, j in itertools.product(range(N), repeat=2):
            n_ops += 1
            if tuple(np.round(P[i] @ P[j]).astype(int).ravel()) not in keys:
                ctx.fail("perm-not-closed/%d" % k, "system %d: perm[%d].perm[%d] not in the set" % (k, i, j))
            d = np.min(np.max(np.abs(R - (R[i] @ R[j])[None]), axis=(1, 2)))
            ctx.near("rot-closure", d, 1e-12, "rot-not-closed/%d" % k, "system %d: rot[%d].rot[%d] is %g from the set" % (k, i, j, d))
        for i in range(N):
            ctx.near("rot-orthonormal", O.ortho_defect(R[i]), 1e-12, "rot-not-orthonormal/%d" % k, "system %d rot[%d]" % (k, i))
            ctx.near("rot-det", abs(np.linalg.det(R[i]) - 1), 1e-12, "rot-improper/%d" % k, "system %d rot[%d] det %r" % (k, i, np.linalg.det(R[i])))
            for j in range(i):
                if O.maxabs(R[i] - R[j]) < 1e-9:
                    ctx.fail("rot-duplicates/%d" % k, "system %d rot[%d]==rot[%d]" % (k, i, j))
        C = np.asarray(symmetry.ROTATIONS[k], float)
        if C.shape != R.shape or O.maxabs(C - R) > 0:
            ctx.fail("cache/%d" % k, "ROTATIONS[%d] differs from rotations(%d)" % (k, k))
        ctx.nontrivial(True, key=("exh", k))
    return n_ops


def check(case, ctx):
    from xfab import symmetry, tools, laue
    if "exhaustive-system" in case:
        exhaustive_one(ctx, case["exhaustive-system"])
        return
    k = case["sys"]
    N = ORDERS[k]
    U1 = S.build_rotation(case["u1"]) + 0.0
    U2 = S.build_rotation(case["u2"]) + 0.0
    if case["small"] is not None:       # U2 a small perturbation of a symmetry-equivalent of U1
        U2 = U1 @ O.axis_angle([0.3, -0.5, 0.8], case["small"])
        ctx.event("small-misorientation")
    Q = S.build_rotation(case["q"]) + 0.0
    U1, U2 = O.ro(U1), O.ro(U2)
    if case["j"] % 4 == 0:
        # the module's logging helpers (they print the equivalent orientations / settings) are used first
        for helper, arg in (("add_rot", np.array(U1)), ("add_perm", np.eye(3))):
            if hasattr(symmetry, helper):
                try:
                    getattr(symmetry, helper)(arg, k)
                except Exception:
                    pass
        ctx.event("logging-helpers-called-first")
    R = np.asarray(symmetry.rotations(k), float)
    P = np.asarray(symmetry.permutations(k), float)
    if R.shape != (N, 3, 3) or P.shape != (N, 3, 3):
        ctx.fail("order/%d" % k, "system %d: rotations() has shape %r and permutations() %r, expected %d operators" % (k, R.shape, P.shape, N))
        return
    j, kk = case["j"] % N, case["k"] % N
    a, b, c = case["abc"]
    cell = conf_cell(k, a, b, c, *case["ang"])
    # pairing identity for both B conventions
    for mname, m in (("tools", tools), ("laue", laue)):
        B = np.asarray(m.form_b_mat(cell), float)
        for i in (j, kk):
            ctx.near("rot.B.perm=B", O.maxabs(R[i] @ B @ P[i] - B) / O.maxabs(B), 1e-9, "pairing/%d" % k,
                     "system %d: rot[%d].B.perm[%d] != B for %s.form_b_mat(%r)" % (k, i, i, mname, cell))
    # how the caller types the orientations: float64, single precision (valid by C20), or integers for axis-aligned ones
    tol_def = 1e-12
    dt = case.get("dtype", "float64")
    if dt == "float32":
        U1, U2 = U1.astype(np.float32), U2.astype(np.float32)
        tol_def = 1e-5
        ctx.event("float32-orientations")
    elif dt == "int-if-axis-aligned":
        # axis-aligned orientations typed as integers by the caller
        U1, U2 = O.axis_aligned()[case["j"] % 24].astype(int), O.axis_aligned()[case["k"] % 24].astype(int)
        Q = O.axis_aligned()[(case["j"] + case["k"]) % 24].copy()
        ctx.event("integer-orientations")
    if case.get("checks_off"):
        import xfab
        xfab.CHECKS._run_checks = False       # the angles must not depend on the input-check switch
        ctx.event("input-checks-switched-off")
    ctx.keep("Umis(previous pair)", symmetry.Umis(U2, np.asarray(Q, U1.dtype) if dt == "float32" else Q, k))
    mis_obj = ctx.keep("Umis", symmetry.Umis(U1, U2, k))
    if not case.get("checks_off"):
        ctx.later("Umis", symmetry.Umis, np.array(U1), np.array(U2), k)
    mis = np.asarray(mis_obj, float)
    if mis.shape != (N, 2):
        ctx.fail("umis-shape", "Umis shape %r for system %d" % (mis.shape, k))
        return
    if not np.array_equal(mis[:, 0], np.arange(N)):
        ctx.fail("umis-index-column", "Umis column 0 is %r" % mis[:, 0].tolist())
    ang = mis[:, 1]
    if not np.all((ang >= 0) & (ang <= 180)):
        ctx.fail("umis-range", "Umis angles outside [0,180]: %r" % ang.tolist())
    M = np.asarray(U1, float).T @ np.asarray(U2, float)
    cosref = np.array([(np.trace(M @ R[i].T) - 1) / 2 for i in range(N)]).clip(-1, 1)
    coss = np.cos(np.radians(ang))
    ctx.near("umis=angle(U1'U2 rot')", O.maxabs(coss - cosref) * (1e-12 / tol_def), 1e-12, "umis-definition",
             "Umis angles %r are not the rotation angles of U1'.U2.rot[k]' (cos dev %g)" % (ang.tolist(), O.maxabs(coss - cosref)))
    # the same in angle space, with a reference that stays accurate for tiny and near-180 angles (atan2 of the axial
    # vector's length and the trace) and a tolerance that follows the conditioning of the library's arccos:
    # d(angle) ~ eps_cos / sin(angle), eps_cos ~ 1e-14 for a sum of nine products (float64 inputs)
    worst = 0.0
    for i in range(N):
        Rm = M @ R[i].T
        ax = 0.5 * math.sqrt((Rm[2, 1] - Rm[1, 2]) ** 2 + (Rm[0, 2] - Rm[2, 0]) ** 2 + (Rm[1, 0] - Rm[0, 1]) ** 2)
        ref_ang = math.atan2(ax, (np.trace(Rm) - 1) / 2)
        eps_c = 2e-14
        allow = (2 * min(eps_c / max(math.sin(ref_ang), 1e-300), math.sqrt(2 * eps_c)) + 1e-12) * (tol_def / 1e-12)
        worst = max(worst, abs(math.radians(float(ang[i])) - ref_ang) / allow)
    ctx.near("umis angle (conditioning-aware)", worst, 1.0, "umis-definition-angle",
             "a Umis angle differs from the rotation angle of U1'.U2.rot[k]' by %.3g times the conditioning-aware allowance (angles %r)" % (worst, ang.tolist()[:6]))
    ctx.nontrivial(k >= 4 and float(np.min(ang)) > 1.0)
    ctx.event("system-%d" % k)
    srt = np.sort(coss)

    def cmp(name, V1, V2):
        if dt == "float32":
            V1, V2 = np.asarray(V1, np.float32), np.asarray(V2, np.float32)
        a2 = np.asarray(symmetry.Umis(V1, V2, k), float)
        if a2.shape != (N, 2):
            ctx.fail("umis-shape/" + name, "system %d: Umis returned shape %r, expected (%d, 2)" % (k, a2.shape, N))
            return
        a2 = a2[:, 1]
        ctx.near("invariance/" + name, O.maxabs(np.sort(np.cos(np.radians(a2))) - srt) * (1e-12 / tol_def), 1e-12, "umis-invariance/" + name,
                 "system %d: angle multiset changes under %s" % (k, name))
    cmp("U2.rot", U1, U2 @ R[j])
    cmp("U1.rot", U1 @ R[kk], U2)
    cmp("common-rotation", Q @ U1, Q @ U2)
    cmp("swap", U2, U1)
    # the cached operator tables are still the freshly computed ones (nobody wrote into them)
    if not np.array_equal(np.asarray(symmetry.ROTATIONS[k]), np.asarray(symmetry.rotations(k))):
        ctx.fail("cache/%d" % k, "ROTATIONS[%d] no longer equals rotations(%d) after the calls of this case" % (k, k))
    same = np.asarray(symmetry.Umis(U1, U1, k), float)
    if same.shape != (N, 2):
        ctx.fail("umis-shape/self", "system %d: Umis(U,U) returned shape %r, expected (%d, 2)" % (k, same.shape, N))
        return
    same = same[:, 1]
    ctx.near("Umis(U,U) contains 0", (1 - math.cos(math.radians(float(np.min(same))))) * (1e-12 / tol_def), 1e-12, "umis-self", "Umis(U,U) minimum is %r deg" % float(np.min(same)))
