"""C18 - reduce_cell returns a primitive cell of the same lattice."""
import math, itertools
import numpy as np
from hypothesis import strategies as st
from vlib import strat as S, oracles as O

ID = "C18"
SWITCH_OFF = 6        # every 6th case runs with xfab.CHECKS switched off (results must not depend on it)
RULE = ("Hypothesis: reduced-like cells (a<=b<=c within a factor 3, angles 75..105) and the conforming families (cubic, "
        "tetragonal, orthorhombic, hexagonal, rhombohedral, monoclinic; needle / plate lattices with one edge 20-400x the others), optionally transformed by a unimodular integer matrix "
        "with entries in {-1,0,1} (6960 matrices, drawn by index); both modules. Cases whose true successive minima (searched "
        "in [-6,6]^3) do not lie within |u|,|v|,|w| <= 2 of the input basis are outside the stated domain and skipped (counted). "
        "Oracle: independent successive-minima search in the code's range with all tie choices enumerated; the output metric "
        "must equal R.R' for such a choice R (rows = vectors); volume preserved; an integer unimodular M with M'G_in M = G_out "
        "must exist. Non-trivial = the reduced basis matrix is not normal (R.R' != R'R) or the cell was transformed")
ASSUMPTIONS = ["known finding K3 recognised only by the exact signature 'output metric = R'R' (1e-8 relative) for an R that the independent search selects",
               "ties between vector lengths resolved by enumerating every choice within 1e-9 relative"]
UNI = None


def uni():
    global UNI
    if UNI is None:
        UNI = [np.array(m).reshape(3, 3) for m in itertools.product([-1, 0, 1], repeat=9)
               if abs(round(np.linalg.det(np.array(m).reshape(3, 3)))) == 1]
    return UNI


def units(tier):
    return [(i, 400) for i in range(16)] if tier == "quick" else [(i, 5000) for i in range(16)]


def strategy(tier, unit):
    a = S.fl(3.0, 9.0)
    # edge-length ratios: generic, exactly 1 (ties) or a hair above 1 (near-ties, 1e-12 .. 1e-4 relative)
    ratio = st.one_of(S.fl(1.0, 1.7), S.fl(1.0, 1.7), st.just(1.0), S.logfl(1e-12, 1e-4).map(lambda d: 1.0 + d))
    red = st.tuples(a, ratio, ratio, S.fl(75, 105), S.fl(75, 105), S.fl(75, 105)).map(
        lambda t: [t[0], t[0] * t[1], t[0] * t[1] * t[2], t[3], t[4], t[5]])
    fam = st.one_of(
        st.builds(lambda x: [x, x, x, 90.0, 90.0, 90.0], a),
        st.builds(lambda x, z: [x, x, x * z, 90.0, 90.0, 90.0], a, S.fl(0.5, 2.0)),
        st.builds(lambda x, y, z: [x, x * y, x * y * z, 90.0, 90.0, 90.0], a, S.fl(1.0, 1.7), S.fl(1.0, 1.7)),
        st.builds(lambda x, z: [x, x, x * z, 90.0, 90.0, 120.0], a, S.fl(0.5, 2.0)),
        st.builds(lambda x, al: [x, x, x, al, al, al], a, S.fl(62.0, 108.0)),
        st.builds(lambda x, y, z, be: [x, x * y, x * y * z, 90.0, be, 90.0], a, S.fl(1.0, 1.7), S.fl(1.0, 1.7), S.fl(91.0, 118.0)),
        # needles and plates: one edge 20 .. 400 times the others (layered structures, long-period superlattices)
        st.builds(lambda x, y, r: [x, x * y, x * r, 90.0, 90.0, 90.0], a, S.fl(1.0, 1.7), S.logfl(20.0, 400.0)),
        st.builds(lambda x, y, r: [x * r, x, x * y, 90.0, 90.0, 90.0], a, S.fl(1.0, 1.7), S.logfl(20.0, 400.0)),
        st.builds(lambda x, r: [x, x, x * r, 90.0, 90.0, 120.0], a, S.logfl(20.0, 400.0)))
    icell = st.tuples(st.integers(3, 12), st.integers(3, 12), st.integers(3, 12), st.sampled_from([90, 90, 80, 100, 95]),
                      st.sampled_from([90, 100, 105, 80, 110]), st.sampled_from([90, 90, 120, 95, 85])).map(list)
    return st.fixed_dictionaries({"cell": st.one_of(red, red, fam, icell), "scale": st.one_of(st.just(1.0), S.logfl(0.5, 100.0)),
                                  "M": st.one_of(st.none(), st.integers(0, 6959)), "M2": st.one_of(st.none(), st.none(), st.integers(0, 6959)),
                                  "mod": st.sampled_from(["tools", "laue"]),
                                  "pre_uvw": st.sampled_from([None, None, 1, 2, 4, 5])})


_IDX = {}


def _min_search(A, lo, hi):
    if (lo, hi) not in _IDX:
        idx = np.array(list(itertools.product(range(lo, hi), repeat=3)))
        _IDX[(lo, hi)] = idx[np.any(idx != 0, axis=1)]
    idx = _IDX[(lo, hi)]
    V = idx @ A.T
    nr = np.linalg.norm(V, axis=1)
    order = np.argsort(nr, kind="stable")
    return idx[order], V[order], nr[order]


def candidate_bases(A, lo, hi):
    """All (i,j,k) choices the documented selection admits (shortest, shortest non-collinear, shortest with
    positive component along v2 x v1), ties within 1e-9 relative enumerated."""
    idx, V, nr = _min_search(A, lo, hi)
    tol = 1e-9 * nr[0]
    c1 = np.where(nr <= nr[0] + tol)[0]
    out = []
    for i in c1:
        nc = np.where(np.abs(np.cross(V, V[i])).sum(axis=1) > 1e-5)[0]
        if len(nc) == 0:
            continue
        l2 = nr[nc].min()
        for j in nc[nr[nc] <= l2 + tol]:
            kr = np.cross(V[j], V[i])
            ks = np.where((V @ kr) / np.linalg.norm(kr) > 1e-5)[0]
            if len(ks) == 0:
                continue
            l3 = nr[ks].min()
            for k in ks[nr[ks] <= l3 + tol]:
                out.append((idx[i], idx[j], idx[k], np.array([V[i], V[j], V[k]])))
    return out


def same_lattice(G1, G2):
    """integer M, det +-1, with M' G1 M = G2 (columns searched among lattice vectors of matching length)"""
    vecs = np.array(list(itertools.product(range(-4, 5), repeat=3)))
    n2 = np.einsum("ij,jk,ik->i", vecs, G1, vecs)
    cols = [vecs[np.abs(n2 - G2[k, k]) < 1e-7 * max(1.0, G2[k, k])] for k in range(3)]
    for c0 in cols[0]:
        for c1 in cols[1]:
            if abs(c0 @ G1 @ c1 - G2[0, 1]) > 1e-7 * math.sqrt(G2[0, 0] * G2[1, 1]):
                continue
            for c2 in cols[2]:
                M = np.array([c0, c1, c2]).T
                if abs(abs(round(np.linalg.det(M))) - 1) < 1e-9 and np.allclose(M.T @ G1 @ M, G2, rtol=0, atol=1e-7 * np.max(np.abs(G2))):
                    return M
    return None


def _G(cell):
    """metric tensor only (no inverse: the output of a failed reduction may be degenerate)"""
    a, b, c, al, be, ga = [float(x) for x in cell]
    ca, cb, cg = (math.cos(math.radians(x)) for x in (al, be, ga))
    return np.array([[a * a, a * b * cg, a * c * cb], [a * b * cg, b * b, b * c * ca], [a * c * cb, b * c * ca, c * c]])


def _same_metric(G1, G2, tol=1e-8):
    """metric tensors equal entry by entry RELATIVE to the lengths involved (|G1_ij - G2_ij| <= tol * |v_i| |v_j|): with an
    absolute tolerance scaled by the largest entry, a needle-shaped lattice (one edge 100x the others) would let errors of
    1e-4 in the short edges pass unnoticed"""
    d = np.sqrt(np.abs(np.diag(G2)))
    if not np.all(d > 0):
        return False
    return bool(np.allclose(G1 / np.outer(d, d), G2 / np.outer(d, d), rtol=0, atol=tol))


def check(case, ctx):
    from xfab import tools, laue
    m = case["mod"]
    mod = tools if m == "tools" else laue
    integral = all(isinstance(x, int) for x in case["cell"])
    cell = [x + 0.0 for x in case["cell"]]
    sc_ = case.get("scale", 1.0)
    if not integral and sc_ != 1.0:
        cell = [cell[0] * sc_, cell[1] * sc_, cell[2] * sc_] + cell[3:]       # cells from sub-Angstrom units to virus crystals
        ctx.event("scaled-cell")
    G = O.metric(cell)[0]
    transformed = case["M"] is not None and not integral
    if transformed:
        M = uni()[case["M"]]
        if case.get("M2") is not None:
            # product of two such matrices: entries beyond +-1 and much more oblique settings (cases whose reduced basis
            # then falls outside |u|,|v|,|w| <= 2 are recognised and skipped below)
            M = M @ uni()[case["M2"]]
            ctx.event("transformed-by-a-product")
        Gt = M.T @ G @ M
        ct = O.cell_from_metric(Gt)
        if O.gram_det(ct) >= 1e-3:
            G, cell = Gt, ct
            G = O.metric(cell)[0]
        else:
            # the transformed setting would be a cell outside the library's cell domain (angles within a fraction of a degree
            # of 0 / 180: normalised Gram determinant < 1e-3; C01 itself stops at 0.02) whose six parameters no longer determine the lattice
            # to working precision; the untransformed setting is used instead
            transformed = False
            ctx.event("transformed-setting-too-degenerate (Gram < 1e-3): untransformed setting used")
    A = np.linalg.cholesky(G).T          # upper triangular, A'A = G (same convention as form_a_mat)
    # domain: the true successive minima (wide search) must lie within |u|,|v|,|w| <= 2
    wide = candidate_bases(A, -6, 7)
    if not wide or any(max(np.max(np.abs(c[0])), np.max(np.abs(c[1])), np.max(np.abs(c[2]))) > 2 for c in wide):
        ctx.event("outside-domain (reduced basis beyond |uvw|<=2): skipped")
        return
    # history element: an earlier call with a non-default search range must not influence the default call
    pre = case.get("pre_uvw")
    if pre is not None:
        ctx.event("earlier-call-with-uvw=%d" % pre)
        pre_out = [float(x) for x in mod.reduce_cell(cell, uvw=pre)]
        cp = candidate_bases(A, -pre, pre)
        finite = all(math.isfinite(x) for x in pre_out)
        degenerate = (not finite) or min(pre_out[:3]) <= 1e-9 or np.linalg.det(_G(pre_out)) <= 1e-12 * np.linalg.det(G)
        if degenerate:
            # a range too small to contain an admissible triple (for the tie order the sort happened to produce)
            # has no defined answer
            ctx.event("small-range-without-admissible-triple (undefined, skipped)")
        if cp and not degenerate:
            # whatever the range, the answer must be built from the shortest non-coplanar vectors of THAT range
            # (ranges without an admissible triple have no defined answer and are skipped)
            Gp = _G(pre_out)
            scp = np.max(np.abs(Gp))
            if not any(_same_metric(R @ R.T, Gp) or _same_metric(R.T @ R, Gp) for (_, _, _, R) in cp):
                ctx.fail("wrong-vectors-uvw%d/%s" % (pre, m), "%s.reduce_cell(%r, uvw=%d) = %r is not built from the shortest non-coplanar vectors of that range" % (m, cell, pre, pre_out))
    if integral:
        carg = [int(x) for x in case["cell"]] if (case["cell"][0] % 2) else np.array(case["cell"], dtype=int)
        ctx.event("integer-typed-cell")
    else:
        carg = O.ro(cell) if case.get("M", 0) is not None and case.get("M", 0) % 2 else cell
    out = mod.reduce_cell(carg)
    if case.get("M", 0) is not None and case.get("M", 0) % 5 == 0:
        ctx.later("%s.reduce_cell" % m, mod.reduce_cell, [float(x) for x in cell])
    out = [float(x) for x in out]
    if not all(math.isfinite(x) for x in out) or len(out) != 6:
        ctx.fail("non-finite/" + m, "%s.reduce_cell(%r) = %r" % (m, cell, out))
        return
    Gout = _G(out)
    V_in, V_out = math.sqrt(np.linalg.det(G)), math.sqrt(max(np.linalg.det(Gout), 0))
    ctx.near("volume", abs(V_out / V_in - 1), 1e-8, "volume-changed/" + m, "%s.reduce_cell(%r) = %r changes the volume %r -> %r" % (m, cell, out, V_in, V_out))
    cands = candidate_bases(A, -3, 3)
    sc = np.max(np.abs(Gout))
    correct = any(_same_metric(R @ R.T, Gout) for (_, _, _, R) in cands)
    bug = any(_same_metric(R.T @ R, Gout) for (_, _, _, R) in cands)
    normal = all(_same_metric(R @ R.T, R.T @ R) for (_, _, _, R) in cands)
    ctx.nontrivial((not normal) or transformed)
    ctx.event("transformed" if transformed else "direct")
    ctx.event("normal-basis-matrix" if normal else "non-normal-basis-matrix")
    if correct:
        ctx.event("output = metric of the selected vectors")
        Mi = same_lattice(G, Gout)
        if Mi is None:
            ctx.fail("not-same-lattice/" + m, "%s.reduce_cell(%r) = %r: no unimodular integer matrix relates the metrics" % (m, cell, out))
        # the three lengths are the successive minima
        ls = sorted(math.sqrt(Gout[i, i]) for i in range(3))
        ref = sorted(np.linalg.norm(cands[0][3], axis=1).tolist())
        ctx.near("successive-minima", max(abs(a / b - 1) for a, b in zip(ls, ref)), 1e-8, "not-shortest/" + m, "%s: lengths %r, successive minima %r" % (m, ls, ref))
    elif bug:
        ctx.fail("K3-transposed-basis/" + m, "%s.reduce_cell(%r) = %r is the cell of R'R (transposed basis), not of the lattice's reduced basis R R'" % (m, cell, out))
    else:
        ctx.fail("wrong-vectors/" + m, "%s.reduce_cell(%r) = %r matches neither the reduced basis nor its transposed-basis signature" % (m, cell, out))
