"""C20 - input checks reject exactly the invalid inputs, and only while switched on."""
import math, tempfile
import numpy as np
import hypothesis
from hypothesis import settings, strategies as st, HealthCheck, Phase
from hypothesis.stateful import RuleBasedStateMachine, rule, run_state_machine_as_test
from vlib import harness, oracles as O, strat as S

ID = "C20"
RULE = ("Hypothesis RuleBasedStateMachine, <= 30 steps: assignments to xfab.CHECKS.activated (True/False and the invalid values "
        "0, 1, None, 'True', numpy.True_, 2.0, [], object()) interleaved with calls of u_to_euler, u_to_rod, u_to_ubi, ubi_to_u, "
        "ubi_to_u_and_eps, ubi_to_rod, euler_to_u, ub_to_u_b (tools and laue) and symmetry.Umis on clearly valid inputs (exact "
        "rotation, float32-rounded rotation, rotation + noise <= 1e-7 per entry, Euler angles in [0,2pi] incl. end points, "
        "right-handed UBI, det>0 UB) and clearly invalid ones (entry perturbed by 3e-3..1 with ||U'U-I|| > 1e-3, improper rotation, "
        "scaled rotation, Euler angle < -1e-3 or > 2pi+1e-3, UBI with two rows swapped, UB with det < 0); model = last valid "
        "assignment. Non-trivial = history with >= 1 invalid assignment, >= 1 True->False->True cycle and >= 1 float32-precision input")
ASSUMPTIONS = ["a check rejection is recognised operationally (ValueError with the switch on, none with it off); in the off state a ValueError is "
               "tolerated only if it is one of the library's own value errors that occur in both states ('Wrong trace of U', '_arctan2()')",
               "python is not run with -O (with -O the switch is permanently off by design)"]
BAD_VALUES = ["int0", "int1", "none", "str", "np_true", "float2", "list", "object", "np_false", "str_false"]
CELL = [3.0, 4.0, 5.0, 80.0, 95.0, 100.0]
CELLS = [[3.0, 4.0, 5.0, 80.0, 95.0, 100.0], [4.0, 4.0, 4.0, 90.0, 90.0, 90.0005], [4.0, 4.0, 4.0, 90.0, 90.0, 90.0], [3.2, 3.2, 5.1, 90.0, 90.0, 120.0],
         [5.0, 6.0, 7.0, 90.0, 105.0, 90.0], [4.0, 4.00004, 4.0, 89.9996, 90.0, 90.0003],
         # the ends of the cell range: volume 0.2 A^3 and 9e7 A^3 (a handedness test must not depend on the size of the cell)
         [0.5, 0.6, 0.7, 85.0, 95.0, 100.0], [400.0, 450.0, 500.0, 90.0, 95.0, 90.0]]


def cell_of(op):
    """the unit cell of a call: one of a few lattices (oblique, exactly / nearly cubic, hexagonal, monoclinic), each call
    a relative 0 .. 5e-5 away from the nominal one (successive grains of one phase never have identical cells)"""
    c = CELLS[op.get("cell", 0) % len(CELLS)]
    d = op.get("dcell", 0.0)
    return [c[0] * (1 + d), c[1] * (1 - d), c[2] * (1 + 0.5 * d), c[3], c[4], c[5]]
OWN_ERRORS = ("Wrong trace of U", "_arctan2()")
U_APIS = ["u_to_euler", "u_to_rod", "u_to_ubi", "Umis", "Umis2", "UmisBoth"]
MODS = ["tools", "laue"]


def units(tier):
    return [(["sm", i], 130) for i in range(16)] if tier == "quick" else [(["sm", i], 10000) for i in range(16)]


def bad_value(tag):
    return {"int0": 0, "int1": 1, "none": None, "str": "True", "np_true": np.True_, "float2": 2.0, "list": [], "object": object(),
            "np_false": np.False_, "str_false": "False"}[tag]


quat = st.tuples(S.fl(-1, 1), S.fl(-1, 1), S.fl(-1, 1), S.fl(-1, 1)).filter(lambda q: sum(x * x for x in q) > 1e-2).map(list)
noise9 = st.lists(S.fl(-1, 1), min_size=9, max_size=9)


def build_U(spec):
    U = O.quat_to_mat(spec["q"])
    k = spec["kind"]
    if k == "f32":
        U = U.astype(np.float32)
        if spec["q"][0] > 0:
            U = U.astype(float)          # single-precision values held in a float64 array / a genuine float32 array
    elif k == "noise7":
        U = U + 1e-7 * np.array(spec["noise"]).reshape(3, 3)
    elif k == "improper":
        U = U @ np.diag([1.0, 1.0, -1.0])
    elif k == "scaled":
        U = U * (1 + 0.5 * spec["e"])
    elif k == "entry":
        U = U.copy()
        U[spec["i"], spec["j"]] += spec["e"]
    return U


def valid_U():
    return st.fixed_dictionaries({"q": quat, "kind": st.sampled_from(["exact", "f32", "f32", "noise7"]), "noise": noise9})


def invalid_U():
    e = st.tuples(S.fl(3e-3, 1.0), st.sampled_from([-1.0, 1.0])).map(lambda t: t[0] * t[1])
    return st.fixed_dictionaries({"q": quat, "kind": st.sampled_from(["entry", "improper", "scaled"]), "e": e,
                                  "i": st.integers(0, 2), "j": st.integers(0, 2)})


def _eq(a, b):
    if isinstance(a, tuple) or isinstance(b, tuple):
        return isinstance(a, tuple) and isinstance(b, tuple) and len(a) == len(b) and all(_eq(x, y) for x, y in zip(a, b))
    a, b = np.asarray(a, float), np.asarray(b, float)
    return a.shape == b.shape and np.array_equal(a, b, equal_nan=True)


class Sim(object):
    def __init__(self):
        import xfab
        self.xfab = xfab
        xfab.CHECKS._run_checks = True
        self.state = True
        self.fails = []
        self.flags = set()
        self.trace = []          # sequence of valid states, to detect a True->False->True cycle
        self.shared = np.zeros((3, 3))      # ONE array object the caller keeps and refills in place between calls

    def fail(self, b, m):
        self.fails.append((b, m))

    def _mod(self, name):
        from xfab import tools, laue
        return tools if name == "tools" else laue

    def _call(self, op, U=None):
        """Returns a zero-argument callable performing the API call of this op."""
        from xfab import symmetry
        api, m = op["api"], self._mod(op.get("mod", "tools"))
        if api == "u_to_euler":
            return lambda: m.u_to_euler(U)
        if api == "u_to_rod":
            return lambda: m.u_to_rod(U)
        if api == "u_to_ubi":
            return lambda: m.u_to_ubi(U, cell_of(op))
        if api == "Umis":
            return lambda: symmetry.Umis(U, np.eye(3), op["sys"])
        if api == "Umis2":
            return lambda: symmetry.Umis(np.eye(3), U, op["sys"])
        if api == "UmisBoth":            # the same matrix on both sides (valid: angle 0 expected; invalid: both improper / distorted)
            return lambda: symmetry.Umis(U, U, op["sys"])
        if api == "euler_to_u":
            a = op["a"]
            return lambda: m.euler_to_u(a[0], a[1], a[2])
        f = O.TWO_PI if op.get("mod") == "tools" else 1.0
        if api in ("ubi_to_u", "ubi_to_u_and_eps", "ubi_to_rod"):
            cell_ = cell_of(op)
            G_, Gs_, V_ = O.metric(cell_)
            B = f * np.linalg.cholesky(Gs_).T       # own B (upper triangular, B'B = f^2 G*): the UBI does not come from the library
            if B[0, 0] < 0:
                B = -B
            ubi = f * np.linalg.inv(U @ B)
            if op.get("swap"):
                ubi = ubi[[1, 0, 2], :]
            if api == "ubi_to_u":
                return lambda: m.ubi_to_u(ubi)
            if api == "ubi_to_rod":
                return lambda: m.ubi_to_rod(ubi)
            return lambda: m.ubi_to_u_and_eps(ubi, cell_)
        if api == "ub_to_u_b":
            B = np.asarray(m.form_b_mat(cell_of(op)), float)
            UB = U @ B
            if op.get("neg"):
                UB = UB @ np.diag([1.0, 1.0, -1.0])
            return lambda: m.ub_to_u_b(UB)
        raise harness.HarnessError("unknown api %r" % api)

    def _run(self, call):
        try:
            return ("ok", call())
        except ValueError as e:
            return ("ValueError", str(e))

    def apply(self, op):
        C = self.xfab.CHECKS
        k = op["op"]
        if k == "assign":
            C.activated = op["v"]
            self.state = op["v"]
            self.trace.append(op["v"])
        elif k == "assign_bad":
            v = bad_value(op["tag"])
            try:
                C.activated = v
                self.fail("setter-accepts-non-bool", "CHECKS.activated = %r was accepted" % (v,))
            except ValueError:
                pass
            self.flags.add("bad-assign")
        else:
            valid = op["valid"]
            U = None
            if "U" in op:
                U = build_U(op["U"])
                if op["U"]["kind"] == "f32":
                    self.flags.add("f32")
                if not valid and op["U"]["kind"] == "entry" and O.ortho_defect(U) <= 1e-3:
                    return self.fails          # perturbation happened to keep U'U within 1e-3: not clearly invalid
                if op["api"] == "u_to_rod" and np.trace(U) + 1 < 1e-3:
                    return self.fails          # 180 deg: u_to_rod's own singularity
                if op["api"] == "ubi_to_rod" and np.trace(U) + 1 < 1e-3:
                    return self.fails
                if op.get("shared") and op["api"] in U_APIS:
                    self.shared[...] = U
                    U = self.shared
                    self.flags.add("shared-array")
            call = self._call(op, U)
            what = "%s.%s" % (op.get("mod", "symmetry"), op["api"])
            C._run_checks = self.state      # (already so; the calls below must not change it)
            res = self._run(call)
            if valid:
                if res[0] != "ok":
                    if self.state:
                        # raised with the switch on: a rejection unless it also raises with the switch off
                        C._run_checks = False
                        res_off = self._run(call)
                        C._run_checks = self.state
                        if res_off[0] == "ok":
                            self.fail("valid-input-rejected/" + op["api"], "%s rejected a valid input (%s) while checks are on: %s" % (what, _desc(op), res[1]))
                        elif not any(s in res[1] for s in OWN_ERRORS):
                            self.fail("valid-input-raises/" + op["api"], "%s raises on a valid input in both switch states: %s" % (what, res[1]))
                    else:
                        if not any(s in res[1] for s in OWN_ERRORS):
                            self.fail("raises-while-off/" + op["api"], "%s raised ValueError(%s) on a valid input while checks are off" % (what, res[1]))
                else:
                    # same value with the switch in the other position
                    C._run_checks = not self.state
                    res2 = self._run(call)
                    C._run_checks = self.state
                    if res2[0] != "ok":
                        if not self.state:
                            self.fail("valid-input-rejected/" + op["api"], "%s rejects a valid input (%s) when checks are on: %s" % (what, _desc(op), res2[1]))
                        else:
                            self.fail("raises-while-off/" + op["api"], "%s raised (%s) with checks off on a valid input" % (what, res2[1]))
                    elif not _eq(res[1], res2[1]):
                        self.fail("value-depends-on-switch/" + op["api"], "%s returns different values with checks on and off" % what)
            else:
                if self.state:
                    if res[0] == "ok":
                        self.fail("invalid-input-accepted/" + op["api"], "%s accepted an invalid input (%s) while checks are on" % (what, _desc(op)))
                else:
                    if res[0] != "ok" and not any(s in res[1] for s in OWN_ERRORS):
                        self.fail("raises-while-off/" + op["api"], "%s raised ValueError(%s) while checks are off (%s)" % (what, res[1], _desc(op)))
        # invariant: the switch reads back the model state
        got = C.activated
        if got is not self.state:
            self.fail("switch-state", "CHECKS.activated is %r after %s, model says %r" % (got, k, self.state))
        return self.fails


def _desc(op):
    d = {k: v for k, v in op.items() if k not in ("op",)}
    if "U" in d:
        d["U"] = d["U"]["kind"]
    return str(d)


def make_machine(ctx):
    class Machine(RuleBasedStateMachine):
        def __init__(self):
            super().__init__()
            self.sim = Sim()
            self.history = []
            self.dead = False

        def step(self, op):
            if self.dead:
                return
            self.history.append(op)
            try:
                fails = self.sim.apply(op)
            except harness.HarnessError:
                raise
            except Exception as e:
                import traceback
                inx, _ = harness._in_xfab(e.__traceback__)
                if not inx:
                    raise harness.HarnessError("harness exception in C20 machine: %s" % traceback.format_exc())
                ctx._case = {"history": list(self.history)}
                ctx._buckets = set()
                ctx.fail("exception/%s/%s" % (type(e).__name__, op.get("api", op["op"])), "unexpected %r during %s" % (e, _desc(op)))
                self.dead = True
                return
            if fails:
                ctx._case = {"history": list(self.history)}
                ctx._buckets = set()
                for b, m in fails:
                    ctx.fail(b, m + " | after %d steps" % len(self.history))
                self.dead = True

        @rule(v=st.booleans())
        def assign(self, v):
            self.step({"op": "assign", "v": v})

        @rule()
        def toggle(self):
            self.step({"op": "assign", "v": not self.sim.state})

        @rule(tag=st.sampled_from(BAD_VALUES))
        def assign_bad(self, tag):
            self.step({"op": "assign_bad", "tag": tag})

        @rule(U=valid_U(), mod=st.sampled_from(MODS), api=st.sampled_from(U_APIS + ["ubi_to_u", "ubi_to_u_and_eps", "ubi_to_rod", "ub_to_u_b"]), sys=st.integers(1, 7), shared=st.booleans(),
              cell=st.integers(0, len(CELLS) - 1), dcell=st.sampled_from([0.0, 1e-5, -2e-5, 4e-5, 1e-3]))
        def valid_matrix(self, U, mod, api, sys, shared, cell, dcell):
            if api in ("ubi_to_u", "ubi_to_u_and_eps", "ubi_to_rod", "ub_to_u_b") and U["kind"] == "noise7":
                U = dict(U, kind="exact")        # these take a UBI / UB built from an exact rotation
            self.step({"op": "call", "valid": True, "api": api, "mod": mod, "U": U, "sys": sys, "shared": shared, "cell": cell, "dcell": dcell})

        @rule(U=invalid_U(), mod=st.sampled_from(MODS), api=st.sampled_from(U_APIS), sys=st.integers(1, 7), shared=st.booleans())
        def invalid_matrix(self, U, mod, api, sys, shared):
            self.step({"op": "call", "valid": False, "api": api, "mod": mod, "U": U, "sys": sys, "shared": shared})

        @rule(q=quat, mod=st.sampled_from(MODS), api=st.sampled_from(["ubi_to_u", "ubi_to_u_and_eps", "ubi_to_rod"]))
        def left_handed_ubi(self, q, mod, api):
            self.step({"op": "call", "valid": False, "api": api, "mod": mod, "U": {"q": q, "kind": "exact"}, "swap": True})

        @rule(q=quat, mod=st.sampled_from(MODS))
        def negative_ub(self, q, mod):
            self.step({"op": "call", "valid": False, "api": "ub_to_u_b", "mod": mod, "U": {"q": q, "kind": "exact"}, "neg": True})

        @rule(a=st.tuples(*[st.one_of(S.fl(0, 2 * math.pi), st.sampled_from([0.0, 2 * math.pi, math.pi]))] * 3).map(list), mod=st.sampled_from(MODS))
        def valid_euler(self, a, mod):
            self.step({"op": "call", "valid": True, "api": "euler_to_u", "mod": mod, "a": a})

        @rule(a=st.tuples(*[S.fl(0, 2 * math.pi)] * 3).map(list), i=st.integers(0, 2),
              bad=st.one_of(S.fl(-10, -1e-3), S.fl(2 * math.pi + 1e-3, 20)), mod=st.sampled_from(MODS))
        def invalid_euler(self, a, i, bad, mod):
            a = list(a)
            a[i] = bad
            self.step({"op": "call", "valid": False, "api": "euler_to_u", "mod": mod, "a": a})

        def teardown(self):
            ctx.n += 1
            ctx._case = {"history": list(self.history)}
            tr = self.sim.trace
            cyc = False
            s = [True] + tr
            # True -> False -> True somewhere in the sequence of valid states
            for i in range(len(s)):
                if s[i] is True:
                    for j in range(i + 1, len(s)):
                        if s[j] is False and any(x is True for x in s[j + 1:]):
                            cyc = True
            nt = cyc and "bad-assign" in self.sim.flags and "f32" in self.sim.flags
            ctx.nontrivial(nt)
            ctx.event("machines")
            ctx.event("steps", len(self.history))
            if cyc:
                ctx.event("machines-with-on-off-on-cycle")
            if "f32" in self.sim.flags:
                ctx.event("machines-with-float32-input")
            if "bad-assign" in self.sim.flags:
                ctx.event("machines-with-invalid-assignment")
            for o in self.history:
                if o["op"] == "call":
                    ctx.event(("valid:" if o["valid"] else "invalid:") + o["api"])
            harness.reset_library_state()

    return Machine


def check(case, ctx):
    sim = Sim()
    try:
        for op in case["history"]:
            fails = sim.apply(op)
            if fails:
                for b, m in fails:
                    ctx.fail(b, m)
                break
    finally:
        harness.reset_library_state()


def run_unit(ctx, tier, unit, n_examples, seed):
    M = make_machine(ctx)
    run_state_machine_as_test(hypothesis.seed(seed)(M), settings=settings(
        max_examples=n_examples, stateful_step_count=30, deadline=None, database=None, derandomize=False,
        report_multiple_bugs=False, suppress_health_check=list(HealthCheck), phases=(Phase.generate,),
        print_blob=False, verbosity=hypothesis.Verbosity.quiet))


def minimize(case, bucket):
    hist = list(case["history"])

    def occurs(h):
        c = harness.Ctx(ID, "quick")
        c.begin({"history": h})
        try:
            check({"history": h}, c)
        except Exception:
            return False
        return bucket in c.findings
    i = 0
    while i < len(hist):
        cand = hist[:i] + hist[i + 1:]
        if occurs(cand):
            hist = cand
        else:
            i += 1
    return {"history": hist}
