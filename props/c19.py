"""C19 - parameter sets survive save/load and stay consistent under any call sequence."""
import os, sys, struct, math, tempfile, shutil
import hypothesis
from hypothesis import settings, strategies as st, HealthCheck, Phase
import hypothesis.stateful
from hypothesis.stateful import RuleBasedStateMachine, rule, invariant, run_state_machine_as_test
from vlib import harness

ID = "C19"
RULE = ("(a) Hypothesis round trips: dict of 0-12 entries (plus, in some cases, 300-2500 generated entries, a value of 1000-70000 characters, a name of 300-9000 characters), names = ASCII identifiers and hyphenated names (incl. pairs colliding "
        "after '-'->'_'), values = ints (0, +-2^53+-1, 1e30), floats (all finite incl. subnormals, +-0.0, +-inf, nan), printable "
        "space-free ASCII strings incl. '' and numeric-looking ones; (b) Hypothesis RuleBasedStateMachine, <= 30 steps, rules "
        "addpar / set / set_parameters / set_varylist (valid and invalid) / set_variable_values (right and wrong length) / "
        "update_other / update_yourself / save+load into a fresh object / load into self, model = plain dict + varylist + "
        "variable list + stepsizes, compared after every step. Non-trivial = history with a save/load after a set_parameters "
        "carrying a numeric-looking string, or a re-ordered varylist of length >= 2; round trips with >= 1 numeric-looking string or a hyphenated name")
ASSUMPTIONS = ["non-ASCII and whitespace characters are outside the domain (blank-separated format, locale encoding)",
               "NaN compared as 'is NaN' (str(float) cannot carry sign/payload of a NaN: a Python fact)",
               "the coercion rule int-if-int()-parses-else-float-if-float()-parses is restated from the property in the model (Python's own int()/float() parsing is trusted)"]
NUMLIKE = ['12', '-7', '1e5', '1_000', 'nan', 'inf', '-inf', '0x10', '1.5', '.5', '5.', '+3', '1e400', '007', '1e-320', '-0.0', '1E5', 'NaN', 'Infinity', '0b1', '1__0', '1e', '--1']


def units(tier):
    if tier == "quick":
        return [(["sm", i], 190) for i in range(8)] + [(["rt", i], 625) for i in range(8)]
    return [(["sm", i], 5000) for i in range(12)] + [(["rt", i], 40000) for i in range(4)]


ident = st.from_regex(r"[a-z][a-z0-9_]{0,5}", fullmatch=True)
hyph = st.builds(lambda a, b: a + "-" + b, ident, ident)
names = st.one_of(ident, ident, hyph, st.sampled_from(["a", "b", "a_b", "a-b", "x1", "t-x", "t_x"]))
asciis = st.text(alphabet=st.characters(min_codepoint=33, max_codepoint=126), max_size=8)
numlike = st.sampled_from(NUMLIKE)
ints = st.one_of(st.integers(-10 ** 6, 10 ** 6), st.sampled_from([0, 2 ** 53 + 1, -(2 ** 53) - 1, 2 ** 53 - 1, 10 ** 30, 2 ** 63, -10 ** 30]))
floats_ = st.floats(allow_nan=True, allow_infinity=True)
# numpy scalars, as produced by any numerical code that fills the parameters (held in the case as {"np64": x} / {"npi": n})
np_floats = st.floats(allow_nan=False, allow_infinity=False).map(lambda x: {"np64": x})
np_ints = st.integers(-10 ** 6, 10 ** 6).map(lambda n: {"npi": n})
values = st.one_of(ints, floats_, asciis, numlike, np_floats, np_ints)


def real_value(v):
    """decode a value of the case into the object handed to the library"""
    import numpy as _np
    if isinstance(v, dict):
        if "np64" in v:
            return _np.float64(v["np64"])
        if "npi" in v:
            return _np.int64(v["npi"])
    return v


def coerce(v):
    """The documented load-time typing: int when it parses as int, else float, else the stripped string."""
    if type(v) is str:
        try:
            vf = float(v)
        except ValueError:
            return v.strip()
        try:
            vi = int(v)
        except ValueError:
            return vf
        return vi if abs(vi - vf) < 1e-9 else vf
    return v


def same(a, b):
    import numpy as _np
    # a numpy scalar and the Python number it prints as are the same value for the purposes of the model
    if isinstance(a, _np.floating):
        a = float(a)
    if isinstance(b, _np.floating):
        b = float(b)
    if isinstance(a, _np.integer):
        a = int(a)
    if isinstance(b, _np.integer):
        b = int(b)
    if type(a) is not type(b):
        return False
    if type(a) is float:
        if a != a or b != b:
            return a != a and b != b
        return struct.pack("d", a) == struct.pack("d", b)
    return a == b


class Bag(object):
    pass


def _saveable(v):
    import numpy as _np
    if isinstance(v, (_np.floating, _np.integer)):
        return True
    return type(v) in (int, float, str) and (type(v) is not str or not any(c.isspace() for c in v))


class Sim(object):
    """Applies one operation to the real parameters object and to the dict model and compares.
    Used by the state machine and by replay (no Hypothesis needed)."""

    def __init__(self, tmpdir, init=None):
        from xfab import parameters as P
        self.P = P
        init = dict(init or {})
        self.real = P.parameters(**init)            # name=value keywords of the constructor
        self.model, self.vary, self.varl, self.steps = dict(init), [], [], {}
        self.tmp = tmpdir
        self.flags = set()
        self.fails = []
        self.nfile = 0

    def fail(self, bucket, msg):
        self.fails.append((bucket, msg))

    def apply(self, op):
        k = op["op"]
        if k == "construct":
            self.__init__(self.tmp, {kk: real_value(vv) for kk, vv in op["kw"]})
            self.compare(k)
            return self.fails
        getattr(self, "op_" + k)(op)
        self.compare(k)
        return self.fails

    # ---- operations
    def op_addpar(self, op):
        n, v = op["n"], real_value(op["v"])
        self.real.addpar(self.P.par(n, v, vary=op["vary"], can_vary=op["can"], stepsize=op["step"]))
        self.model[n] = v
        if op["vary"] and n not in self.vary:
            self.vary.append(n)
        if op["can"] and n not in self.varl:
            self.varl.append(n)
            self.steps[n] = op["step"]

    def op_set(self, op):
        v = real_value(op["v"])
        self.real.set(op["n"], v)
        self.model[op["n"]] = v

    def op_set_parameters(self, op):
        d = {k: real_value(v) for k, v in op["d"]}
        passed = dict(d)
        self.real.set_parameters(passed)
        passed.clear()                      # the caller's dict is the caller's: clearing it must not affect the object
        passed["zz_later"] = 1
        self.model.update(d)
        self.model = {k: coerce(v) for k, v in self.model.items()}
        if any(type(v) is str and type(coerce(v)) is not str for v in d.values()):
            self.flags.add("numlike-set")

    def op_set_varylist(self, op):
        vl = list(op["vl"])
        valid = all(n in self.model and n in self.varl for n in vl)
        before = list(self.real.varylist)
        try:
            self.real.set_varylist(list(vl))
            raised = False
        except AssertionError:
            raised = True
        if valid and raised:
            self.fail("set_varylist/valid-rejected", "set_varylist(%r) raised although every name is a known variable" % vl)
        elif not valid and not raised:
            self.fail("set_varylist/invalid-accepted", "set_varylist(%r) accepted a name that is unknown or cannot vary" % vl)
        if valid:
            if len(vl) >= 2 and vl != [n for n in self.vary if n in vl] and set(vl) <= set(self.vary):
                self.flags.add("reordered")
            self.vary = vl
        elif raised and list(self.real.varylist) != before:
            self.fail("set_varylist/changed-on-error", "varylist changed by a rejected set_varylist")

    def op_set_variable_values(self, op):
        vals = [real_value(v) for v in op["vals"]]
        if len(vals) == len(self.vary):
            self.real.set_variable_values(vals)
            for n, v in zip(self.vary, vals):
                self.model[n] = v
        else:
            try:
                self.real.set_variable_values(vals)
                self.fail("set_variable_values/wrong-length-accepted", "set_variable_values with %d values for %d variables did not raise" % (len(vals), len(self.vary)))
            except AssertionError:
                pass

    def op_update_yourself(self, op):
        attrs = {k: real_value(v) for k, v in op["attrs"]}
        if len(op["attrs"]) % 2:
            # the other object carries its values as CLASS attributes (defaults declared on the class), not instance ones
            o = type("Defaults", (object,), dict(attrs))()
        else:
            o = Bag()
            for k, v in attrs.items():
                setattr(o, k, v)
        self.real.update_yourself(o)
        for k in list(self.model):
            if k in attrs:
                self.model[k] = attrs[k]

    def op_update_other(self, op):
        o = Bag()
        attrs = {k: real_value(v) for k, v in op["attrs"]}
        for k, v in attrs.items():
            setattr(o, k, v)
        self.real.update_other(o)
        for k in attrs:
            exp = self.model[k] if k in self.model else attrs[k]
            if not same(getattr(o, k), exp):
                self.fail("update_other", "attribute %r is %r after update_other, expected %r" % (k, getattr(o, k), exp))
        extra = set(vars(o)) - set(attrs)
        if extra:
            self.fail("update_other/new-attributes", "update_other created attributes %r" % sorted(extra))

    def _file(self):
        self.nfile += 1
        return os.path.join(self.tmp, "p%d_%d.par" % (os.getpid(), self.nfile % 4))

    def _expected_file_model(self):
        """name -> list of acceptable loaded values (more than one only when two names collide after '-' -> '_':
        which of the two lines wins is not specified by the property)"""
        exp = {}
        for k in sorted(self.model):
            exp.setdefault(k.replace("-", "_"), []).append(coerce(str(self.model[k])))
        return exp

    def _cmp_loaded(self, what, got, exp):
        if set(got) != set(exp):
            self.fail(what + "/keys", "%s: keys %r, expected %r" % (what, sorted(got)[:12], sorted(exp)[:12]))
            return
        for k, cands in exp.items():
            if not any(same(got[k], c) for c in cands):
                self.fail(what + "/value", "%s: %r is %r (%s), expected %s" % (what, k, got[k], type(got[k]).__name__,
                                                                              " or ".join("%r (%s)" % (c, type(c).__name__) for c in cands)))
                return

    def op_save_load_fresh(self, op):
        if not all(_saveable(v) for v in self.model.values()):
            return
        f = self._file()
        self.real.saveparameters(f)
        # (the property speaks about the mapping that comes back, not about the layout of the file: no claim on line
        #  order or separators beyond what loading needs)
        q = self.P.read_par_file(f)
        got = q.get_parameters()
        exp = self._expected_file_model()
        self._cmp_loaded("load-fresh", got, exp)
        # the round-trip claim proper: ints, floats and non-numeric strings come back unchanged
        for k, v in self.model.items():
            kk = k.replace("-", "_")
            if sum(1 for x in self.model if x.replace("-", "_") == kk) > 1:
                continue
            import numpy as _np
            if type(v) in (int, float) or isinstance(v, (_np.floating, _np.integer)) or (type(v) is str and type(coerce(v)) is str and v == v.strip()):
                if kk not in got or not same(got[kk], v):
                    self.fail("roundtrip-value", "%r = %r saved, %r loaded" % (k, v, got.get(kk, "<missing>")))
        if "numlike-set" in self.flags:
            self.flags.add("save-after-numlike")

    def op_load_self(self, op):
        if not all(_saveable(v) for v in self.model.values()):
            return
        f = self._file()
        self.real.saveparameters(f)
        exp_at_save = self._expected_file_model()
        if op.get("touch"):
            # between saving and re-loading, the object is given other values of another type for names the file holds
            # (ints become floats, numbers become words): loading must bring back exactly what the file states
            for k, v in list(self.model.items())[:4]:
                if "-" in k:
                    continue          # (a hyphenated name is loaded under its underscore spelling; the hyphenated entry itself stays)
                if type(v) is int:
                    self.real.set(k, float(v) + 0.5)
                elif type(v) is float:
                    self.real.set(k, "word")
        self.real.loadparameters(f)
        exp = exp_at_save      # the file holds the values as they were when saved
        gp = self.real.get_parameters()
        for kk, cands in exp.items():
            pick = cands[-1]
            if len(cands) > 1 and kk in gp:        # colliding names: adopt whichever of the candidates the object took
                for c in cands:
                    if same(gp[kk], c):
                        pick = c
            self.model[kk] = pick
        self.model = {k: coerce(v) for k, v in self.model.items()}
        if "numlike-set" in self.flags:
            self.flags.add("save-after-numlike")

    # ---- invariant
    def _cmp_dict(self, what, got, exp):
        if set(got) != set(exp):
            self.fail(what + "/keys", "%s: keys %r, expected %r" % (what, sorted(got)[:12], sorted(exp)[:12]))
            return
        for k in exp:
            if not same(got[k], exp[k]):
                self.fail(what + "/value", "%s: %r is %r (%s), expected %r (%s)" % (what, k, got[k], type(got[k]).__name__, exp[k], type(exp[k]).__name__))
                return

    def compare(self, after):
        gp = self.real.get_parameters()
        self._cmp_dict("state-after-" + after, gp, self.model)
        for k, v in self.model.items():
            try:
                if not same(self.real.get(k), v):
                    self.fail("get", "get(%r) = %r, model %r" % (k, self.real.get(k), v))
            except KeyError:
                self.fail("get", "get(%r) raised KeyError" % k)
        gv = self.real.get_variable_values()
        if len(gv) != len(self.vary) or not all(same(a, self.model.get(n)) for a, n in zip(gv, self.vary)):
            self.fail("variable-values", "get_variable_values() = %r, varylist %r, model values %r" % (gv, self.vary, [self.model.get(n) for n in self.vary]))
        if list(self.real.get_variable_list()) != self.varl:
            self.fail("variable-list", "get_variable_list() = %r, model %r" % (self.real.get_variable_list(), self.varl))
        if all(n in self.steps for n in self.vary):
            st_ = self.real.get_variable_stepsizes()
            if list(st_) != [self.steps[n] for n in self.vary]:
                self.fail("stepsizes", "get_variable_stepsizes() = %r, model %r" % (st_, [self.steps[n] for n in self.vary]))


def make_machine(ctx, tmpdir):
    pairs = lambda ks, vs=values: st.lists(st.tuples(ks, vs), max_size=4, unique_by=lambda t: t[0]).map(lambda l: [list(t) for t in l])
    # attributes of the OTHER object may hold None (fields of a freshly constructed object that update_other is meant to fill)
    attr_values = st.one_of(values, values, values, st.none())

    class Machine(RuleBasedStateMachine):
        def __init__(self):
            super().__init__()
            self.sim = Sim(tmpdir)
            self.history = []
            self.dead = False

        def step(self, op):
            if self.dead:
                return
            self.history.append(op)
            try:
                fails = self.sim.apply(op)
            except Exception as e:
                ctx._case = {"history": list(self.history)}
                import traceback
                inx, _ = harness._in_xfab(e.__traceback__)
                if not inx:
                    raise harness.HarnessError("harness exception in C19 machine: %s" % traceback.format_exc())
                ctx._buckets = set()
                ctx.fail("exception/%s/%s" % (type(e).__name__, op["op"]), "unexpected %r during %s" % (e, op["op"]))
                self.dead = True
                return
            if fails:
                ctx._case = {"history": list(self.history)}
                ctx._buckets = set()
                for b, m in fails:
                    ctx.fail(b, m + " | after %d steps, last op %s" % (len(self.history), op["op"]))
                self.dead = True

        @hypothesis.stateful.initialize(kw=pairs(ident))
        def construct(self, kw):
            if kw:
                self.step({"op": "construct", "kw": kw})

        @rule(n=names, v=values, vary=st.booleans(), can=st.booleans(), step=st.one_of(st.none(), st.floats(0.001, 1)))
        def addpar(self, n, v, vary, can, step):
            self.step({"op": "addpar", "n": n, "v": v, "vary": vary, "can": can, "step": step})

        @rule(n=names, v=values)
        def set(self, n, v):
            self.step({"op": "set", "n": n, "v": v})

        @rule(d=pairs(names))
        def set_parameters(self, d):
            self.step({"op": "set_parameters", "d": d})

        @rule(data=st.data())
        def set_varylist(self, data):
            cand = [n for n in self.sim.varl if n in self.sim.model]
            vl = data.draw(st.lists(st.sampled_from(cand), unique=True)) if cand else []
            self.step({"op": "set_varylist", "vl": list(vl)})

        @rule(n=names, data=st.data())
        def set_varylist_maybe_invalid(self, n, data):
            cand = [x for x in self.sim.varl if x in self.sim.model]
            vl = data.draw(st.lists(st.sampled_from(cand), unique=True, max_size=2)) if cand else []
            self.step({"op": "set_varylist", "vl": list(vl) + [n]})

        @rule(data=st.data(), wrong=st.sampled_from([0, 0, 0, 1, -1]))
        def set_variable_values(self, data, wrong):
            k = max(0, len(self.sim.vary) + wrong)
            vals = data.draw(st.lists(values, min_size=k, max_size=k))
            self.step({"op": "set_variable_values", "vals": vals})

        @rule(attrs=pairs(st.one_of(ident, st.sampled_from(["a", "b", "a_b", "x1"])), attr_values))
        def update_yourself(self, attrs):
            self.step({"op": "update_yourself", "attrs": attrs})

        @rule(attrs=pairs(st.one_of(ident, st.sampled_from(["a", "b", "a_b", "x1"])), attr_values), twin=st.booleans())
        def update_other(self, attrs, twin):
            if twin:
                # the receiver already holds values that compare EQUAL to the parameters but are not the same
                # (3 vs 3.0, 0.0 vs -0.0, True vs 1): update_other must still hand over the parameter's own value
                attrs = [list(t) for t in attrs]
                for k, v in list(self.sim.model.items())[:3]:
                    if isinstance(v, bool) or not isinstance(k, str) or not k.isidentifier():
                        continue
                    if type(v) is int and abs(v) < 2 ** 53:
                        attrs.append([k, float(v)])
                    elif type(v) is float and v == v and v.is_integer() and abs(v) < 2 ** 53:
                        attrs.append([k, int(v) if v != 0 else (-0.0 if math.copysign(1, v) > 0 else 0.0)])
                seen = set()
                attrs = [t for t in attrs if not (t[0] in seen or seen.add(t[0]))]
            self.step({"op": "update_other", "attrs": attrs})

        @rule()
        def save_load_fresh(self):
            self.step({"op": "save_load_fresh"})

        @rule(touch=st.booleans())
        def load_self(self, touch):
            self.step({"op": "load_self", "touch": touch})

        def teardown(self):
            ctx.n += 1
            ctx._case = {"history": list(self.history)}
            ops = [o["op"] for o in self.history]
            for o in set(ops):
                ctx.event("op:" + o)
            ctx.event("steps", len(ops))
            nt = "save-after-numlike" in self.sim.flags or "reordered" in self.sim.flags
            ctx.nontrivial(nt)
            ctx.event("machines")
            if nt:
                ctx.event("machines-nontrivial")
            harness.reset_library_state()

    return Machine


def rt_strategy(tier, unit):
    # besides the 0-12 drawn entries: "bulk" further entries built deterministically from their index (parameter files with
    # thousands of lines), and one string value / one name that is several thousand characters long (a path, a list of
    # image names, ... stored as one space-free word)
    return st.fixed_dictionaries({"k": st.just("rt"), "entries": st.lists(st.tuples(names, values), max_size=12, unique_by=lambda t: t[0]).map(lambda l: [list(t) for t in l]),
                                  "bulk": st.sampled_from([0] * 60 + [300, 1024, 1025, 2500]),
                                  "longval": st.sampled_from([None] * 8 + [1000, 4090, 4200, 9000, 70000]),
                                  "longname": st.sampled_from([None] * 12 + [300, 4200, 9000])})


def _bulk_entries(n):
    out = []
    for i in range(n):
        r = i % 4
        v = i - n // 2 if r == 0 else ((i * 0.37 - 11.0) / 7.0 if r == 1 else ("w%dx" % i if r == 2 else "%d.5e-3" % i))
        out.append(("q%05d" % i if i % 7 else "q-%05d" % i, v))
    return out


def check(case, ctx):
    """Replay entry point / round-trip check (no Hypothesis)."""
    tmp = tempfile.mkdtemp(prefix="c19_")
    try:
        sim = Sim(tmp)
        if "history" in case:
            for op in case["history"]:
                fails = sim.apply(op)
                if fails:
                    for b, m in fails:
                        ctx.fail(b, m)
                    break
        else:
            ents = [(k, real_value(v)) for k, v in case["entries"]]
            ents = [(k, v) for k, v in ents if _saveable(v)]
            if case.get("bulk"):
                ents = ents + _bulk_entries(case["bulk"])
                ctx.event("bulk-entries", case["bulk"])
            if case.get("longval"):
                ents.append(("zlongvalue", "/data/" + "abcdefghij" * (case["longval"] // 10) + ".edf"))
                ctx.event("long-value")
            if case.get("longname"):
                ents.append(("n" + "abcdefghi_" * (case["longname"] // 10), 42))
                ctx.event("long-name")
            for k, v in ents:
                sim.real.set(k, v)
                sim.model[k] = v
            numl = any(type(v) is str and type(coerce(v)) is not str for _, v in ents)
            hy = any("-" in k for k, _ in ents)
            ctx.nontrivial(numl or hy)
            ctx.event("roundtrip")
            sim.apply({"op": "save_load_fresh"})
            for b, m in sim.fails:
                ctx.fail(b, m)
    finally:
        shutil.rmtree(tmp, ignore_errors=True)


class _RT(object):
    ID = ID
    strategy = staticmethod(rt_strategy)
    check = staticmethod(check)


def run_unit(ctx, tier, unit, n_examples, seed):
    if unit[0] == "rt":
        harness.run_hypothesis(_RT, ctx, unit, n_examples, seed)
        return
    tmp = tempfile.mkdtemp(prefix="c19_")
    try:
        M = make_machine(ctx, tmp)
        run_state_machine_as_test(hypothesis.seed(seed)(M), settings=settings(
            max_examples=n_examples, stateful_step_count=30, deadline=None, database=None, derandomize=False,
            report_multiple_bugs=False, suppress_health_check=list(HealthCheck), phases=(Phase.generate,),
            print_blob=False, verbosity=hypothesis.Verbosity.quiet))
    finally:
        shutil.rmtree(tmp, ignore_errors=True)


def minimize(case, bucket):
    """Greedy deletion of operations while the same bucket still occurs (replay is deterministic)."""
    if "history" not in case:
        return case
    hist = list(case["history"])

    def occurs(h):
        c = harness.Ctx(ID, "quick")
        c.begin({"history": h})
        try:
            check({"history": h}, c)
        except Exception:
            return False
        return bucket in c.findings
    i = 0
    while i < len(hist):
        cand = hist[:i] + hist[i + 1:]
        if occurs(cand):
            hist = cand
        else:
            i += 1
    return {"history": hist}
