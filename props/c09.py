"""C09 - returned (omega, eta) satisfy the diffraction condition; no solution is missed."""
import math
import numpy as np
from hypothesis import strategies as st
from vlib import strat as S, oracles as O

ID = "C09"
SWITCH_OFF = 6        # every 6th case runs with xfab.CHECKS switched off (results must not depend on it)
TARGETED = True     # thorough tier uses hypothesis.target on the residual/tolerance ratios
RULE = ("Hypothesis: g = sin(theta).d with d uniform on the sphere or within 1e-8..1e-1 of +-z (the rotation axis), "
        "2theta in (0.5,150) deg, chi and wedge in [-0.5,0.5] with explicit weight on 0, laue gets g times an arbitrary "
        "positive scale; all four solvers of both modules per case; plus tth/tth2 on cell x hkl x U. Non-trivial = both "
        "tilts non-zero and two solutions exist")
ASSUMPTIONS = ["diffraction condition residual 1e-9 absolute (measured <= 1e-12)",
               "solution count claimed only when |rhs| differs from the amplitude by more than 1e-6 relative (tangency excluded, as the property states)"]
TOL = 1e-9


def units(tier):
    if tier == "quick":
        return [(i, 2500) for i in range(8)]
    # plain generation for the bulk, plus four small units in which Hypothesis hill-climbs on the residual/tolerance ratios
    return [(i, 30000) for i in range(16)] + [("target-%d" % i, 2500) for i in range(4)]


def strategy(tier, unit):
    c_ = st.one_of(S.fl(-1, 1), st.sampled_from([0.0, 1.0, -1.0]))
    unitv = st.tuples(c_, c_, c_).filter(lambda v: sum(x * x for x in v) > 1e-4).map(list)
    tiny = st.tuples(S.logfl(1e-9, 1e-2), st.sampled_from([-1.0, 1.0])).map(lambda t: t[0] * t[1])
    tilt = st.one_of(st.just(0.0), S.fl(-0.5, 0.5), S.fl(-0.5, 0.5), S.fl(-0.5, 0.5), tiny)
    return st.fixed_dictionaries({
        "d": unitv, "tthd": st.one_of(S.fl(0.5, 150.0), st.sampled_from([0.5, 150.0, 90.0, 60.0, 120.0])), "chi": tilt, "wedge": tilt, "scale": S.logfl(1e-2, 1e2),
        "near_axis": st.one_of(st.none(), st.none(), st.tuples(S.fl(-8, -1), st.sampled_from([1.0, -1.0])).map(list)),
        "cell": S.cells(1.0, 50.0), "hkl": S.hkls(6), "rot": S.rot_specs(1), "wl": S.fl(0.05, 0.2),
        "prev_rel": st.one_of(st.none(), S.logfl(1e-9, 1e-3)),
        # constructive mode: g is built from a chosen solution (omega0, eta0) of a chosen solver, so that special values of
        # eta and the solvers' internal singularities (denominators that vanish) are reached on purpose
        "construct": st.one_of(st.none(), st.none(), st.fixed_dictionaries({
            "solver": st.sampled_from(["find_omega_general", "find_omega_quart", "find_omega_wedge", "find_omega"]),
            "omega0": st.one_of(S.fl(-math.pi, math.pi), st.sampled_from([0.0, math.pi / 2, math.pi, -math.pi / 2])),
            "eta_mode": st.sampled_from(["generic", "special", "wedge-singular"]),
            "eta0": st.one_of(S.fl(-math.pi, math.pi), st.sampled_from([0.0, math.pi / 2, math.pi, -math.pi / 2])),
            "delta": st.one_of(st.just(0.0), st.tuples(S.logfl(1e-13, 1e-3), st.sampled_from([-1.0, 1.0])).map(lambda t: t[0] * t[1]))}))})


def check(case, ctx):
    from xfab import tools, laue
    d = np.array(case["d"], float) + 0.0
    if case["near_axis"] is not None:
        e, sgn = case["near_axis"]
        d = np.array([0, 0, sgn]) + d * 10 ** e
        ctx.event("g-near-rotation-axis")
    d = d / np.linalg.norm(d)
    tth = math.radians(case["tthd"])
    th = tth / 2
    g = O.ro(math.sin(th) * d)
    chi, wedge = case["chi"] + 0.0, case["wedge"] + 0.0
    cons = case.get("construct")
    expect = None
    if cons is not None:
        sv = cons["solver"]
        eta0 = cons["eta0"]
        if cons["eta_mode"] == "wedge-singular" and abs(math.tan(wedge)) > abs(math.tan(th)) + 1e-9:
            # find_omega_wedge divides by a = cos(w)(cos 2th - 1) + sin(w) sin 2th cos(eta), which vanishes at cos(eta) = tan(th)/tan(w)
            eta0 = math.acos(max(-1.0, min(1.0, math.tan(th) / math.tan(wedge)))) + cons["delta"]
            sv = "find_omega_wedge"
            ctx.event("constructed: eta at/near the wedge-solver singularity")
        elif cons["eta_mode"] == "special":
            eta0 = [0.0, math.pi / 2, math.pi, -math.pi / 2][int(abs(cons["eta0"]) * 1000) % 4] + cons["delta"]
        tvec = np.array([-math.sin(th) ** 2, -0.5 * math.sin(tth) * math.sin(eta0), 0.5 * math.sin(tth) * math.cos(eta0)])
        om0 = cons["omega0"]
        if sv == "find_omega_general":
            M0_ = O.Rx(chi) @ O.Ry(wedge) @ O.Rz(om0)
        elif sv == "find_omega_quart":
            P_ = O.Rx(chi) @ O.Ry(wedge)
            M0_ = P_ @ O.Rz(om0) @ P_.T
        elif sv == "find_omega_wedge":
            M0_ = O.Ry(-wedge) @ O.Rz(om0)
        else:
            M0_ = O.Rz(om0)
        g = O.ro(M0_.T @ tvec)
        expect = (sv, om0, eta0)
        ctx.event("constructed-from-solution/" + sv)
    both = chi != 0 and wedge != 0
    ctx.event("tilts:" + ("both" if both else "chi" if chi else "wedge" if wedge else "none"))
    target_x = -math.sin(th) ** 2
    any_two = False
    sols = {}
    for mname, m in (("tools", tools), ("laue", laue)):
        gg = g if m is tools else O.ro(g * case["scale"])
        solvers = (
            ("find_omega_general", lambda: m.find_omega_general(gg, tth, chi, wedge), lambda o: np.asarray(m.form_omega_mat_general(o, chi, wedge), float)),
            ("find_omega_quart", lambda: m.find_omega_quart(gg, tth, chi, wedge), lambda o: np.asarray(m.quart_to_omega(math.degrees(o), chi, wedge), float)),
            ("find_omega_wedge", lambda: m.find_omega_wedge(gg, tth, wedge), lambda o: O.Ry(-wedge) @ O.Rz(o)),
            ("find_omega", lambda: (m.find_omega(gg, tth), None), lambda o: O.Rz(o)),
        )
        for name, call, build in solvers:
            om, eta = call()
            om = np.atleast_1d(np.asarray(om, float))
            eta_a = None if eta is None else np.atleast_1d(np.asarray(eta, float))
            tag = "%s.%s" % (mname, name)
            # existence criterion: x-component of M(w).g is A cos w + B sin w + C
            M0, M1, M2 = (build(x) @ g for x in (0.0, math.pi / 2, math.pi))
            C = (M0[0] + M2[0]) / 2
            A = M0[0] - C
            B = M1[0] - C
            rhs = target_x - C
            amp = math.hypot(A, B)
            tangent = amp < 1e-12 or abs(abs(rhs) - amp) <= 1e-6 * amp
            if tangent:
                ctx.event("tangent (count not claimed)")
            else:
                nexp = 2 if abs(rhs) < amp else 0
                if len(om) != nexp:
                    ctx.fail("count/" + name, "%s returned %d solutions, %d exist (rhs=%r amp=%r) for g=%r tth=%r chi=%r wedge=%r" % (
                        tag, len(om), nexp, rhs, amp, g.tolist(), tth, chi, wedge))
                elif nexp == 2:
                    if O.ang_diff(om[0], om[1]) < 1e-9 * 0 + 1e-12 and amp - abs(rhs) > 1e-3 * amp:
                        ctx.fail("duplicate-solution/" + name, "%s returned the same omega twice: %r" % (tag, om.tolist()))
                    any_two = True
                ctx.event("two" if nexp else "zero")
            if eta_a is not None and len(eta_a) != len(om):
                ctx.fail("eta-length/" + name, "%s: %d omegas but %d etas" % (tag, len(om), len(eta_a)))
                continue
            for i in range(len(om)):
                o = float(om[i])
                # (-pi, pi]: the branch without a 2 pi wrap.  The single point -pi is accepted: arctan2(-0.0, -1) = -pi is
                # the same rotation as +pi to the last bit, and which of the two is returned depends on the sign of a zero
                if not (-math.pi <= o <= math.pi):
                    ctx.fail("omega-range/" + name, "%s: omega %r outside (-pi,pi]" % (tag, o))
                gt = build(o) @ g
                # find_omega obtains omega through arccos: near omega = 0 / pi it is only good to sqrt(2 ulp) ~ 2e-8 rad,
                # i.e. 2e-8 sin(theta) in the x-component; the other solvers use arctan2 and keep the plain 1e-9
                tol_x = TOL + (4e-8 * math.sin(th) if name == "find_omega" else 0.0)
                ctx.near("x-component/" + name, abs(gt[0] - target_x) * (TOL / tol_x), TOL, "diffraction-condition/" + name,
                         "%s: (M(omega).g)_x = %r, required %r; g=%r tth=%r chi=%r wedge=%r" % (tag, gt[0], target_x, g.tolist(), tth, chi, wedge))
                if eta_a is not None:
                    e = float(eta_a[i])
                    ry = -0.5 * math.sin(tth) * math.sin(e)
                    rz = 0.5 * math.sin(tth) * math.cos(e)
                    ctx.near("yz-components/" + name, max(abs(gt[1] - ry), abs(gt[2] - rz)), TOL, "eta/" + name,
                             "%s: (y,z) = (%r,%r), eta=%r requires (%r,%r)" % (tag, gt[1], gt[2], e, ry, rz))
            # conditioning of omega itself: d(omega) ~ eps / sqrt(1-(rhs/amp)^2) / (amp/|g|); large when the two
            # solutions nearly coincide or when g is nearly parallel to the rotation axis (amp -> 0)
            if amp < 1e-12:
                cond = 1e12
            else:
                cond = 1.0 / max(math.sqrt(max(1 - min(1.0, (rhs / amp) ** 2), 0.0)), 1e-6) / max(amp / math.sin(th), 1e-6)
            sols[(mname, name)] = (om, eta_a, tangent, cond)
            # constructive completeness: the solution g was built from must be among the returned ones
            if expect is not None and expect[0] == name and not tangent and cond < 1e5:
                if len(om) == 0 or min(O.ang_diff(float(x), expect[1]) for x in om) > 1e-8 * cond * (40.0 if name == "find_omega" else 1.0) + 1e-9:
                    ctx.fail("constructed-solution-missing/" + name, "%s: g was built from omega=%r eta=%r (2theta=%r chi=%r wedge=%r) but the solver returned %r" % (
                        tag, expect[1], expect[2], tth, chi, wedge, om.tolist()))
    ctx.later("tools.find_omega_general", tools.find_omega_general, np.array(g), tth, chi, wedge)
    ctx.later("laue.find_omega_wedge", laue.find_omega_wedge, np.array(g) * case["scale"], tth, wedge)
    ctx.nontrivial(both and any_two)
    # agreement where the tilts coincide
    def same(a, b):
        if len(a) != len(b):
            return None
        if len(a) == 0:
            return 0.0
        d1 = max(O.ang_diff(a[0], b[0]), O.ang_diff(a[1], b[1]))
        d2 = max(O.ang_diff(a[0], b[1]), O.ang_diff(a[1], b[0]))
        return min(d1, d2)
    for mname in ("tools", "laue"):
        ref = sols[(mname, "find_omega_general")]
        if ref[2]:
            continue
        others = []
        if chi == 0 and wedge == 0:
            others = ["find_omega_quart", "find_omega_wedge", "find_omega"]
            ctx.event("agreement: all four at zero tilt")
        for n in others:
            o2 = sols[(mname, n)]
            if o2[2]:
                continue
            dd = same(ref[0], o2[0])
            if dd is None:
                ctx.fail("agreement-count/" + n, "%s.%s and find_omega_general disagree on the number of solutions at zero tilt" % (mname, n))
            else:
                # omega from arccos (find_omega) loses precision near 0/pi: compare through the unit vectors
                ctx.near("agreement/" + n, dd / max(ref[3], o2[3]) / (40.0 if n == "find_omega" else 1.0), 1e-9, "agreement/" + n, "%s.%s omegas %r differ from find_omega_general %r" % (mname, n, o2[0].tolist(), ref[0].tolist()))
    # find_omega_general(g,2th,0,-w) == find_omega_wedge(g,2th,w)
    for mname, m in (("tools", tools), ("laue", laue)):
        gg = g if m is tools else g * case["scale"]
        og, eg = m.find_omega_general(gg, tth, 0.0, -wedge)
        ow, ew = sols[(mname, "find_omega_wedge")][0:2]
        cw = sols[(mname, "find_omega_wedge")][3]
        M0, M1, M2 = ((O.Ry(-wedge) @ O.Rz(x)) @ g for x in (0.0, math.pi / 2, math.pi))
        C = (M0[0] + M2[0]) / 2
        amp = math.hypot(M0[0] - C, M1[0] - C)
        if amp < 1e-12 or abs(abs(target_x - C) - amp) <= 1e-6 * amp:
            continue
        dd = same(np.atleast_1d(np.asarray(og, float)), ow)
        if dd is None:
            ctx.fail("agreement-count/general(-w)-vs-wedge", "%s: find_omega_general(chi=0,-wedge) and find_omega_wedge(wedge) differ in count" % mname)
        else:
            ctx.near("agreement/general(-w)=wedge(w)", dd / cw, 1e-9, "agreement/general-vs-wedge", "%s: general(0,-w) %r vs wedge(w) %r" % (mname, list(np.atleast_1d(og)), ow.tolist()))
    # tth = 2 asin(lambda*stl) = tth2(U.B.hkl, lambda)
    cell = case["cell"]
    if S.is_int_typed(cell):
        ctx.event("tth:integer-typed-cell")
    G, Gs, V = O.metric([float(x) for x in cell])
    s = O.stl(Gs, case["hkl"])
    wl = case["wl"]
    if wl * s < 0.95:
        ref = 2 * math.asin(wl * s)
        U = S.build_rotation(case["rot"])
        for mname, m in (("tools", tools), ("laue", laue)):
            if case.get("prev_rel") is not None:      # the previous reflection came from a minutely different cell
                m.tth(S.perturbed(cell, case["prev_rel"]), case["hkl"], wl)
            t1 = m.tth(cell, case["hkl"], wl)
            ctx.near("tth", abs(t1 - ref), 1e-9, "tth", "%s.tth %r != 2 asin(lambda stl) %r" % (mname, t1, ref))
            gv = U @ np.asarray(m.form_b_mat(cell), float) @ np.array(case["hkl"], float)
            t2 = m.tth2(gv, wl)
            ctx.near("tth2", abs(t2 - ref), 1e-9, "tth2", "%s.tth2(U.B.hkl) %r != %r" % (mname, t2, ref))
