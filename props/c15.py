"""C15 - site multiplicity equals the number of symmetry-equivalent positions in the cell."""
import math, itertools
from fractions import Fraction as Fr
import numpy as np
from hypothesis import strategies as st
from vlib import strat as S, oracles as O, groups as GR

ID = "C15"
SWITCH_OFF = 6        # every 6th case runs with xfab.CHECKS switched off (results must not depend on it)
RULE = ("one unit per space-group setting (all 237 in every run); per setting Hypothesis draws positions from the rational "
        "grid {0,1/8,1/6,1/4,1/3,3/8,1/2,5/8,2/3,3/4,5/6,7/8}^3 and from the families (x,x,z) (x,2x,z) (x,-x,z) (x,0,z) (x,x,x) "
        "(x,y,z) with generic x,y,z = k/9973, shifted by integer lattice vectors in [-3,3] (one case in three: [-2000,2000]), given as floats, called by name "
        "(incl. case/blank variants) or by number + cell_choice; thorough additionally enumerates the whole 1728-point grid per "
        "setting. Oracle: exact orbit size modulo 1 with Fractions. Non-trivial = position with a non-trivial stabiliser in a "
        "group with a non-symmetric rotation, or a coordinate not representable in binary (thirds, sixths)")
ASSUMPTIONS = ["positions whose distinct exact images come closer than 1e-4 (modulo 1) are skipped and counted: the code's 1e-5 coincidence threshold makes their multiplicity threshold-dependent",
               "translations taken as exact 24ths (asserted by C04)"]
GRID = [Fr(0), Fr(1, 8), Fr(1, 6), Fr(1, 4), Fr(1, 3), Fr(3, 8), Fr(1, 2), Fr(5, 8), Fr(2, 3), Fr(3, 4), Fr(5, 6), Fr(7, 8)]
FAMILIES = ["grid"] * 7 + ["xxz", "x2xz", "x-xz", "x0z", "xxx", "xyz", "mixed"]


def units(tier):
    n = 120 if tier == "quick" else 300
    return [(i, n) for i in range(len(GR.SETTINGS))]


def strategy(tier, unit):
    gi = st.integers(0, 11)
    gen = st.integers(1, 9972)
    return st.fixed_dictionaries({
        "setting": st.just(unit), "family": st.sampled_from(FAMILIES), "g": st.tuples(gi, gi, gi).map(list),
        "x": st.tuples(gen, gen, gen).map(list), "shift": st.one_of(st.tuples(st.integers(-3, 3), st.integers(-3, 3), st.integers(-3, 3)), st.tuples(st.integers(-3, 3), st.integers(-3, 3), st.integers(-3, 3)),
                           # an atom given many cells away from the origin (different shifts along the three axes)
                           st.tuples(st.integers(-2000, 2000), st.integers(-2000, 2000), st.integers(-2000, 2000))).map(list),
        "byname": st.booleans(), "upper": st.booleans(), "blank": st.booleans(),
        "pos_as": st.sampled_from(["list", "array", "tuple", "int-if-integral"])})


def position(case):
    fam = case["family"]
    g = [GRID[i] for i in case["g"]]
    x, y, z = [Fr(k, 9973) for k in case["x"]]
    if fam == "grid": return g
    if fam == "xxz": return [x, x, z]
    if fam == "x2xz": return [x, 2 * x, z]
    if fam == "x-xz": return [x, -x, z]
    if fam == "x0z": return [x, Fr(0), z]
    if fam == "xxx": return [x, x, x]
    if fam == "xyz": return [x, y, z]
    return [g[0], y, g[2]]       # mixed: special in two coordinates, generic in one


def run_one(ctx, g, pos, shift, byname, variant_name=None, pos_as="list"):
    from xfab import structure
    orb = g.orbit(pos)
    exact = len(orb)
    # the code decides coincidence with a 1e-5 threshold: only positions whose distinct images are
    # clearly separated (>= 1e-4 modulo 1) have a threshold-independent multiplicity
    if exact > 1:
        P = np.array([[float(x) for x in p] for p, _ in orb])
        D = P[:, None, :] - P[None, :, :]
        dist = np.abs(D - np.round(D)).sum(axis=2)
        dist[np.diag_indices(len(P))] = 1.0
        if dist.min() < 1e-4:
            ctx.event("skipped: distinct images closer than 1e-4 (threshold-dependent)")
            return None
    fpos = [float(p) + int(k) for p, k in zip(pos, shift)]
    if pos_as == "array":
        fpos = O.ro(fpos)
    elif pos_as == "tuple":
        fpos = tuple(fpos)
    elif pos_as == "int-if-integral" and all(x.is_integer() for x in fpos):
        fpos = [int(x) for x in fpos]
        ctx.event("integer-typed-position")
    cc = GR.fresh(g.choice)
    if byname:
        variant_name = GR.fresh(variant_name)
        if g.choice == "rhombohedral" and variant_name.replace(" ", "").lower().endswith("r") and len(fpos) and int(abs(float(fpos[0])) * 1000) % 2:
            m = structure.multiplicity(fpos, sgname=variant_name)          # the trailing r of the name selects the setting
        else:
            m = structure.multiplicity(fpos, sgname=variant_name, cell_choice=cc)
    else:
        m = structure.multiplicity(fpos, sgno=g.no, cell_choice=cc)
    if not byname:
        ctx.later("multiplicity", structure.multiplicity, [float(x) for x in fpos], None, g.no, g.choice)
    if m != exact:
        ctx.fail("multiplicity/Sg%d/%s" % (g.no, g.choice), "multiplicity(%r) = %r, orbit has %d points (position %s, %s)" % (
            fpos, m, exact, [str(p) for p in pos], ("sgname=%r" % variant_name) if byname else "by number"))
    return exact


def check(case, ctx):
    no, ch = GR.SETTINGS[case["setting"]]
    g = GR.group(no, ch)
    pos = position(case)
    al = GR.aliases(no, ch)
    name = al[case["x"][0] % len(al)] if case["x"][1] % 3 == 0 else g.name
    if case["upper"]:
        name = name.upper()
    if case["blank"]:
        name = " ".join(name)
    sib = GR.sibling(no, ch)
    if sib is not None:
        # history element: the other setting of the same group number is asked first, through the same API
        gs = GR.group(*sib)
        run_one(ctx, gs, pos, case["shift"], case["byname"], gs.name)
        ctx.event("sibling-setting-used-first")
    exact = run_one(ctx, g, pos, case["shift"], case["byname"], name, case.get("pos_as", "list"))
    if exact is None:
        return
    ctx._sample_view = {"group": "%s (Sg%d, %s)" % (g.name, g.no, g.choice), "position": [str(p) for p in pos], "shift": case["shift"], "orbit_size": exact}
    if sib is not None and ch == "standard":
        # independent of the tables: the hexagonal cell holds three rhombohedral cells, so under the obverse axis
        # transformation x_r = (x+z, -x+y+z, -y+z) the multiplicity on hexagonal axes is three times the rhombohedral one
        from xfab import structure
        xr = [pos[0] + pos[2], -pos[0] + pos[1] + pos[2], -pos[1] + pos[2]]
        orb_r = GR.group(no, "rhombohedral").orbit(xr)
        Pr = np.array([[float(x) for x in p] for p, _ in orb_r])
        ok_sep = True
        if len(Pr) > 1:
            Dd = Pr[:, None, :] - Pr[None, :, :]
            dd = np.abs(Dd - np.round(Dd)).sum(axis=2)
            dd[np.diag_indices(len(Pr))] = 1.0
            ok_sep = dd.min() >= 1e-4
        if ok_sep:
            mh = structure.multiplicity([float(x) for x in pos], sgno=no, cell_choice="standard")
            mr = structure.multiplicity([float(x) for x in xr], sgno=no, cell_choice=GR.fresh("rhombohedral"))
            if mh != 3 * mr:
                ctx.fail("hex-vs-rhomb-multiplicity/Sg%d" % no, "Sg%d: multiplicity %d at %s on hexagonal axes, %d at the same point on rhombohedral axes (obverse), expected a factor 3" % (
                    no, mh, [str(p) for p in pos], mr))
            ctx.event("hex-vs-rhomb-relation-checked")
        if case["x"][2] % 8 == 0:
            # ... and, a few times per run, over the whole lattice of sixths (216 points: every inversion centre,
            # rotation axis and centring-related site of the R groups)
            sixth = [Fr(i, 6) for i in range(6)]
            nbad = 0
            for ph in itertools.product(sixth, repeat=3):
                xr6 = [ph[0] + ph[2], -ph[0] + ph[1] + ph[2], -ph[1] + ph[2]]
                mh = structure.multiplicity([float(x) for x in ph], sgno=no, cell_choice="standard")
                mr = structure.multiplicity([float(x) for x in xr6], sgno=no, cell_choice="rhombohedral")
                if mh != 3 * mr and nbad < 3:
                    nbad += 1
                    ctx.fail("hex-vs-rhomb-multiplicity/Sg%d" % no, "Sg%d: multiplicity %d at %s on hexagonal axes, %d at the same point on rhombohedral axes (obverse), expected a factor 3" % (
                        no, mh, [str(p) for p in ph], mr))
            ctx.event("hex-vs-rhomb-relation-scan(216 points)")
    special = exact < g.nsymop
    nonsym = any(not np.array_equal(R, R.T) for R in g.R)
    nonbin = any(p.denominator % 3 == 0 for p in pos)
    ctx.nontrivial((special and nonsym) or nonbin)
    ctx.event("special-position" if special else "general-position")
    ctx.event("family:" + case["family"])


def run_unit(ctx, tier, unit, n_examples, seed):
    """Hypothesis part plus, in the thorough tier, the exhaustive grid for this setting."""
    import sys
    from vlib import harness
    mod = sys.modules[__name__]
    harness.run_hypothesis(_Shim, ctx, unit, n_examples, seed)
    if tier == "thorough":
        no, ch = GR.SETTINGS[unit]
        g = GR.group(no, ch)
        k = 0
        for pos in itertools.product(GRID, repeat=3):
            sh = [((k * 7 + i * 3) % 7) - 3 for i in range(3)]
            k += 1
            case = {"setting": unit, "family": "grid", "g": [GRID.index(p) for p in pos], "x": [1, 1, 1], "shift": sh,
                    "byname": False, "upper": False, "blank": False}
            harness.guarded_check(mod, case, ctx)
        ctx.extra["exhaustive_grid_points"] = ctx.extra.get("exhaustive_grid_points", 0) + k


class _Shim(object):
    ID = ID
    strategy = staticmethod(strategy)
    check = staticmethod(check)
