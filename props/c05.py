"""C05 - genhkl_all returns exactly the reflections the space group allows in the shell."""
import math
import numpy as np
from vlib import strat as S, oracles as O, groups as GR, hkl as HK

ID = "C05"
SWITCH_OFF = 6        # every 6th case runs with xfab.CHECKS switched off (results must not depend on it)
RULE = ("one unit per space-group setting (all 237 in every run); per setting Hypothesis draws a conforming cell (25% with "
        "orthogonal metric where the system allows obliqueness), a shell whose bounds are mid-gap between consecutive distinct "
        "sin(theta)/lambda values of the enumerated reciprocal lattice (<= ~1500 points in the sphere; one case in ten up to 12000 / 40000 points; one case in five with one axis 20-200x longer or shorter than the others, i.e. indices of 100-250; two cases in seven with the cell rounded to whole numbers and typed as ints), smin 0 or mid-gap, call "
        "by number or by a case/blank variant of the name, two numpy RNG seeds, module tools/laue. Oracle: brute-force lattice "
        "enumeration with the metric tensor minus operator-extinct reflections (exact integer arithmetic). Non-trivial = at "
        "least one lattice point in the shell is extinct, or the cell is oblique, or smin > 0")
ASSUMPTIONS = ["shell bounds are >= 2e-9 (relative) away from every lattice point by construction, so float rounding of sin(theta)/lambda cannot change membership",
               "known finding K1 (early-exit scan) is recognised only when no member of the missing reflection's Laue orbit is visited by an independent model of the documented scan",
               "hexagonal/rhombohedral relation: obverse setting, a_h = 2 a_r sin(alpha/2), c_h = a_r sqrt(3(1+2cos alpha)), (h,k,l)_hex = (h-k, k-l, h+k+l)_rhomb"]


def units(tier):
    n = 40 if tier == "quick" else 400
    # the settings whose scan tables are the intricate ones (Laue -1, 2/m and the rhombohedral settings) get three times the cases
    return [(i, n * 3 if (i < 15 or i >= 230) else n) for i in range(len(GR.SETTINGS))]


def strategy(tier, unit):
    return HK.case_strategy(unit)


def check(case, ctx):
    from xfab import tools, laue
    mod = tools if case["mod"] == "tools" else laue
    B = HK.build(case)
    if not B.ok:
        ctx.event("tiny-shell-skipped")
        return
    g = B.g
    HK.classify(case, B, ctx)
    tag = "Sg%d/%s" % (g.no, g.choice)
    if GR.touch_sibling(g.no, g.choice):
        ctx.event("sibling-setting-used-first")
    ctx._sample_view = {"group": "%s (Sg%d, %s)" % (g.name, g.no, g.choice), "cell": B.cell, "sintlmin": B.smin, "sintlmax": B.smax,
                        "call": repr(B.kw), "module": case["mod"], "lattice_points_in_shell": int(len(B.H_shell)), "extinct_among_them": int(B.ext.sum())}
    nt = bool(B.ext.any()) or B.oblique or B.smin > 0
    ctx.nontrivial(nt)
    if B.ext.any():
        ctx.event("extinction-active")
    if B.oblique:
        ctx.event("oblique-metric")
    if B.smin > 0:
        ctx.event("smin>0")
    if B.edge:
        ctx.event("shell-bound-next-to-a-lattice-value:" + B.edge)
    ctx.event("by-name" if case["byname"] else "by-number")
    np.random.seed(case["npseed"])
    A = mod.genhkl_all(B.cell_arg, B.smin, B.smax, **B.kw)
    if case["npseed"] % 4 == 0 and len(np.asarray(A)) < 400:
        def _sorted_all(cell, lo, hi, kw):
            r = np.asarray(mod.genhkl_all(cell, lo, hi, **kw), float)
            return r[np.lexsort(r.T[::-1])] if len(r) else r
        ctx.later("%s.genhkl_all(sorted)" % case["mod"], _sorted_all, list(B.cell), B.smin, B.smax, dict(B.kw))
    Ai, integral = HK.rows_to_int(A)
    if Ai is not None:
        try:                      # the caller owns the returned array and may overwrite it (e.g. scale it in place);
            A[...] = -7.0         # that must not influence later calls (second call below)
        except Exception:
            pass
    if Ai is None:
        ctx.fail("shape/" + tag, "genhkl_all returned shape %r" % (np.asarray(A).shape,))
        return
    if not integral:
        ctx.fail("non-integer/" + tag, "genhkl_all returned non-integer indices")
    As = set(map(tuple, Ai.tolist()))
    desc = "%s.genhkl_all(%r, %r, %r, %r)" % (case["mod"], B.cell, B.smin, B.smax, B.kw)
    if len(As) != len(Ai):
        ctx.fail("duplicate/" + tag, "%s returned %d rows, %d distinct" % (desc, len(Ai), len(As)))
    if (0, 0, 0) in As:
        ctx.fail("contains-000/" + tag, desc)
    extra = As - B.allowed
    missing = B.allowed - As
    if extra:
        ex = sorted(extra)[:4]
        why = ["%r %s" % (h, ("extinct" if h in B.stl_of and g.extinct([h])[0] else "outside shell")) for h in ex]
        ctx.fail("extra/" + tag, "%s returned %d reflections that are not allowed in the shell, e.g. %s" % (desc, len(extra), "; ".join(why)))
    if missing:
        ok, un = HK.k1_explains(B, missing)
        if ok:
            ctx.fail(HK.k1_bucket(B), "%s misses %d allowed reflections never visited by the early-exit scan, e.g. %r" % (desc, len(missing), sorted(missing)[:3]))
        else:
            ctx.fail("missing/" + tag, "%s misses %d allowed reflections, e.g. %r" % (desc, len(missing), un or sorted(missing)[:3]))
    # independent of numpy's global random state
    np.random.seed(case["npseed2"])
    A2 = mod.genhkl_all(B.cell_arg, B.smin, B.smax, **B.kw)
    A2i, _ = HK.rows_to_int(A2)
    if A2i is None or set(map(tuple, A2i.tolist())) != As or len(A2i) != len(Ai):
        ctx.fail("rng-dependent/" + tag, "%s differs between numpy seeds %d and %d" % (desc, case["npseed"], case["npseed2"]))
    # obverse hexagonal <-> rhombohedral relation for the R groups (run from the rhombohedral unit)
    if g.choice == "rhombohedral":
        ar, al = B.cell[0], math.radians(B.cell[3])
        cell_h = [2 * ar * math.sin(al / 2), 2 * ar * math.sin(al / 2), ar * math.sqrt(3 * (1 + 2 * math.cos(al))), 90.0, 90.0, 120.0]
        np.random.seed(case["npseed"])
        Ah = mod.genhkl_all(cell_h, B.smin, B.smax, sgno=g.no, cell_choice="standard")
        Ahi, _ = HK.rows_to_int(Ah)
        T = np.array([[1, -1, 0], [0, 1, -1], [1, 1, 1]])          # (hkl)_hex = T (hkl)_rhomb
        mapped = set(map(tuple, (Ai @ T.T).tolist()))
        hexset = set(map(tuple, Ahi.tolist())) if Ahi is not None else set()
        ctx.event("hex-vs-rhomb")
        if mapped != hexset:
            d1, d2 = mapped - hexset, hexset - mapped
            # differences caused purely by K1 families missing on the rhombohedral side are K1, not a transformation error
            back = np.linalg.inv(T)
            d2r = {tuple(int(round(x)) for x in back @ np.array(h)) for h in d2}
            if not d1 and missing and d2r <= missing and HK.k1_explains(B, d2r)[0]:
                pass
            else:
                ctx.fail("hex-rhomb-mismatch/Sg%d" % g.no, "rhombohedral cell %r and hexagonal cell %r give different reflections under the obverse transformation (%d / %d unmatched), e.g. %r %r" % (
                    B.cell, cell_h, len(d1), len(d2), sorted(d1)[:2], sorted(d2)[:2]))
