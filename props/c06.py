"""C06 - genhkl_unique lists one reflection per Laue family, sorted by true sintl."""
import math
import numpy as np
from vlib import strat as S, oracles as O, groups as GR, hkl as HK

ID = "C06"
SWITCH_OFF = 6        # every 6th case runs with xfab.CHECKS switched off (results must not depend on it)
RULE = ("same case space as C05 incl. needle/plate cells, shells of up to 40000 lattice points and integer-typed cells (one unit per setting, conforming cell, gap-constructed shell, name/number, tools/laue), "
        "output_stl True and False. Oracle: Laue orbits {+-hR} from the exact integer rotations, brute-force lattice "
        "enumeration with operator extinction, metric-tensor sin(theta)/lambda; boundary semantics by re-calling with "
        "smax / smin equal to a returned row's own sintl. Non-trivial = at least one family with more than two members and "
        "(two families sharing a sintl value or a Laue class scanned in >= 2 segments)")
ASSUMPTIONS = ["known finding K1 recognised by the scan-model predicate as in C05 (missing family never visited by the documented scan)",
               "column 4 compared with the metric oracle at 1e-12 relative",
               "boundary metamorphic test only in Laue classes whose scan is complete (not the four K1 classes on oblique metrics)"]
SEGMENTS = {"-1": 4, "2/m": 2, "mmm": 1, "4/mmm": 1, "4/m": 2, "6/mmm": 1, "6/m": 2, "-3m1": 2, "-31m": 2, "-3": 3, "-3m": 2, "m-3m": 1, "m-3": 2}


def units(tier):
    n = 25 if tier == "quick" else 300
    # the settings whose scan tables are the intricate ones (Laue -1, 2/m and the rhombohedral settings) get three times the cases
    return [(i, n * 3 if (i < 15 or i >= 230) else n) for i in range(len(GR.SETTINGS))]


def strategy(tier, unit):
    return HK.case_strategy(unit)


def check(case, ctx):
    from xfab import tools, laue
    mod = tools if case["mod"] == "tools" else laue
    B = HK.build(case)
    if not B.ok:
        ctx.event("tiny-shell-skipped")
        return
    g = B.g
    HK.classify(case, B, ctx)
    tag = "Sg%d/%s" % (g.no, g.choice)
    if GR.touch_sibling(g.no, g.choice):
        ctx.event("sibling-setting-used-first")
    ctx._sample_view = {"group": "%s (Sg%d, %s)" % (g.name, g.no, g.choice), "cell": B.cell, "sintlmin": B.smin, "sintlmax": B.smax,
                        "call": repr(B.kw), "module": case["mod"], "allowed_reflections": len(B.allowed)}
    np.random.seed(case["npseed"])
    # history: an earlier identical call whose returned arrays the caller then overwrote in place
    if case.get("pick", 0) < 0.5:
        for fn in (mod.genhkl_unique, mod.genhkl_all):
            for ostl in (True, False):
                r0 = fn(B.cell_arg, B.smin, B.smax, output_stl=ostl, **B.kw)
                try:
                    r0[...] = -7.0
                except Exception:
                    pass
        ctx.event("earlier-identical-call-result-overwritten")
    U4 = np.asarray(mod.genhkl_unique(B.cell_arg, B.smin, B.smax, output_stl=True, **B.kw), float)
    U3 = np.asarray(mod.genhkl_unique(B.cell_arg, B.smin, B.smax, **B.kw), float)
    A4 = np.asarray(mod.genhkl_all(B.cell_arg, B.smin, B.smax, output_stl=True, **B.kw), float)
    A3 = np.asarray(mod.genhkl_all(B.cell_arg, B.smin, B.smax, **B.kw), float)
    desc = "%s(%r, %r, %r, %r)" % (case["mod"], B.cell, B.smin, B.smax, B.kw)
    for name, M, w in (("unique+stl", U4, 4), ("unique", U3, 3), ("all+stl", A4, 4), ("all", A3, 3)):
        if M.ndim != 2 or M.shape[1] != w:
            ctx.fail("shape/" + name, "%s genhkl_%s shape %r" % (desc, name, M.shape))
            return
    Ui, okU = HK.rows_to_int(U4)
    Ai, okA = HK.rows_to_int(A4)
    if not (okU and okA):
        ctx.fail("non-integer/" + tag, "%s: non-integer indices" % desc)
    if not (np.array_equal(U4[:, :3], U3) and len(A4) == len(A3) and set(map(tuple, A4[:, :3].tolist())) == set(map(tuple, A3.tolist()))):
        ctx.fail("output_stl-changes-rows/" + tag, "%s: rows differ with/without output_stl" % desc)
    # (ii) one member per family: orbits pairwise disjoint
    seen = {}
    union = set()
    fam_sizes = []
    for r in map(tuple, Ui.tolist()):
        orb = HK.orbit_keys(r, B.laue)
        fam_sizes.append(len(orb))
        clash = orb & union
        if clash:
            ctx.fail("two-members-of-one-family/" + tag, "%s: genhkl_unique rows %r and %r are Laue-equivalent" % (desc, seen[next(iter(clash))], r))
        for h in orb:
            seen[h] = r
        union |= orb
    # (iii) genhkl_all is exactly the union of the families, no duplicates
    As = set(map(tuple, Ai.tolist()))
    if len(As) != len(Ai):
        ctx.fail("all-duplicates/" + tag, "%s: genhkl_all has repeated rows" % desc)
    if As != union:
        ctx.fail("all-not-union-of-families/" + tag, "%s: genhkl_all has %d rows, union of the unique families %d; e.g. %r / %r" % (
            desc, len(As), len(union), sorted(As - union)[:2], sorted(union - As)[:2]))
    # (iv) nothing else: every unique row is an allowed reflection of the shell
    bad = [r for r in map(tuple, Ui.tolist()) if r not in B.allowed]
    if bad:
        ctx.fail("unique-row-not-allowed/" + tag, "%s: rows %r are extinct or outside the shell" % (desc, bad[:3]))
    # every allowed family is represented
    missing = B.allowed - union
    if missing:
        ok, un = HK.k1_explains(B, missing)
        if ok:
            ctx.fail(HK.k1_bucket(B), "%s: genhkl_unique lacks %d allowed reflections' families (never visited by the early-exit scan), e.g. %r" % (desc, len(missing), sorted(missing)[:3]))
        else:
            ctx.fail("family-missing/" + tag, "%s: no representative for allowed reflections %r" % (desc, un or sorted(missing)[:3]))
    # (v) column 4 = true stl of that row, non-decreasing
    for name, M, Mi in (("unique", U4, Ui), ("all", A4, Ai)):
        if len(M):
            ref = 0.5 * np.sqrt(np.maximum(np.einsum("ij,jk,ik->i", Mi.astype(float), B.Gs, Mi.astype(float)), 0))
            ctx.near("stl-column/" + name, float(np.max(np.abs(M[:, 3] / ref - 1))), 1e-12, "stl-column/" + name,
                     "%s: genhkl_%s column 4 is not sin(theta)/lambda of the row" % (desc, name))
            if np.any(np.diff(M[:, 3]) < 0):
                ctx.fail("not-sorted/" + name, "%s: genhkl_%s rows not ordered by sin(theta)/lambda" % (desc, name))
            # 'true' ordering: the oracle's stl must be non-decreasing too, up to ties within rounding
            if np.any(np.diff(ref) < -1e-12 * ref[1:]):
                ctx.fail("not-sorted-true-stl/" + name, "%s: genhkl_%s rows not ordered by the true sin(theta)/lambda" % (desc, name))
    # non-trivial classification
    svals = np.round(np.array([B.stl_of.get(tuple(r), 0.0) for r in Ui.tolist()]) / max(B.smax, 1e-30), 9)
    ties = len(svals) != len(set(svals.tolist()))
    nt = any(f > 2 for f in fam_sizes) and (ties or SEGMENTS.get(g.Laue, 1) >= 2)
    ctx.nontrivial(nt)
    if ties:
        ctx.event("stl-ties-between-families")
    ctx.event("segments>=2" if SEGMENTS.get(g.Laue, 1) >= 2 else "segments=1")
    # (vi) boundary semantics: sintlmax inclusive, sintlmin exclusive
    k1_region = (g.Laue, g.choice) in HK.K1_CLASSES and (B.oblique or g.choice == "rhombohedral")
    if len(Ui) and not k1_region:
        r = Ui[min(len(Ui) - 1, int(case["pick"] * len(Ui)))]
        if tuple(int(x) for x in r) not in B.stl_of:
            return          # a row that does not belong to the shell at all (reported above): nothing meaningful to re-call with
        s = float(mod.sintl(B.cell, r))
        if not (B.smin < s <= B.smax * (1 + 1e-9)):
            ctx.fail("sintl-of-returned-row", "%s.sintl(%r, %r) = %r lies outside the shell (%r, %r] in which the oracle places this reflection" % (case["mod"], B.cell, r.tolist(), s, B.smin, B.smax))
            return
        lo = B.smin if B.smin < s else 0.0
        inc = np.asarray(mod.genhkl_unique(B.cell, lo, s, **B.kw), float)
        if tuple(r) not in set(map(tuple, np.round(inc).astype(int).tolist())):
            ctx.fail("sintlmax-not-inclusive", "%s: row %r (sintl %r) not returned with sintlmax = its own sintl" % (desc, r.tolist(), s))
        exc = np.asarray(mod.genhkl_unique(B.cell, s, max(B.smax, s * (1 + 1e-6)), **B.kw), float)
        if tuple(r) in set(map(tuple, np.round(exc).astype(int).tolist())):
            ctx.fail("sintlmin-not-exclusive", "%s: row %r (sintl %r) returned with sintlmin = its own sintl" % (desc, r.tolist(), s))
        ctx.event("boundary-semantics-checked")
