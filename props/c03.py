"""C03 - every orientation parametrisation yields a proper rotation and inverts exactly."""
import math
import numpy as np
from hypothesis import strategies as st
from vlib import strat as S, oracles as O

ID = "C03"
SWITCH_OFF = 6        # every 6th case runs with xfab.CHECKS switched off (results must not depend on it)
TARGETED = True     # thorough tier uses hypothesis.target on the residual/tolerance ratios
RULE = ("Hypothesis: (a) constructors on all real angles (floats in [-1e3,1e3], multiples of pi/2 +- ulps) with the "
        "input checks off for out-of-range Euler angles and on for in-range ones, Rodrigues vectors |r| 1e-8..1e3; "
        "(b) inverses on proper rotations weighted towards PHI exactly 0/pi, PHI within 1e-12..1e-3 of 0/pi, "
        "axis-aligned matrices, products of elementary rotations and float32-rounded rotations. Non-trivial = PHI within "
        "1e-3 of 0 or pi, or U axis-aligned, or |r| > 100")
ASSUMPTIONS = ["constructors compared with elementary-rotation products at 1e-12 absolute; inverses at the property's 1e-6",
               "for inputs that are themselves only approximately orthonormal (float32-rounded) the rebuild tolerance is 1e-6 + ||U'U-I||"]
PI = math.pi


def units(tier):
    if tier == "quick":
        return [(i, 2500) for i in range(12)]
    # plain generation for the bulk, plus four small units in which Hypothesis hill-climbs on the residual/tolerance ratios
    return [(i, 60000) for i in range(16)] + [("target-%d" % i, 2500) for i in range(4)]


def _angle():
    k = st.integers(-8, 8)
    ulps = st.integers(-2, 2)
    special = st.tuples(k, ulps).map(lambda t: _nudge(t[0] * PI / 2, t[1]))
    # also angles that have accumulated many turns (1e3 .. 1e12 rad): sin/cos of such arguments are still exact to an ulp
    huge = st.tuples(S.logfl(1e3, 1e12), st.sampled_from([-1.0, 1.0])).map(lambda t: t[0] * t[1])
    return st.one_of(S.fl(-1e3, 1e3), S.fl(-1e3, 1e3), S.fl(-2 * PI, 2 * PI), special, huge)


def _nudge(x, n):
    for _ in range(abs(n)):
        x = math.nextafter(x, math.inf if n > 0 else -math.inf)
    return x


def _inrange():
    k = st.integers(0, 4).map(lambda i: i * PI / 2)
    return st.one_of(S.fl(0, 2 * PI), k)


def strategy(tier, unit):
    rod = st.tuples(S.fl(-1, 1), S.fl(-1, 1), S.fl(-1, 1), S.logfl(1e-8, 1e3)).filter(
        lambda t: t[0] ** 2 + t[1] ** 2 + t[2] ** 2 > 1e-4)
    constructors = st.fixed_dictionaries({
        "k": st.just("ctor"), "mod": st.sampled_from(["tools", "laue"]),
        "a": st.tuples(_angle(), _angle(), _angle()).map(list),
        "inr": st.tuples(_inrange(), _inrange(), _inrange()).map(list),
        "rod": rod.map(list), "omega_deg": S.fl(-720, 720)})
    inverses = st.fixed_dictionaries({
        "k": st.just("inv"), "mod": st.sampled_from(["tools", "laue"]), "rot": S.rot_specs(4),
        "f32": st.booleans(), "elem": st.one_of(st.none(), S.fl(-7, 7))})
    return st.one_of(constructors, inverses, inverses)


def _proper(ctx, name, M, m, tol=1e-12):
    M = np.asarray(M, float)
    if M.shape != (3, 3):
        ctx.fail("shape/" + name, "%s.%s returned shape %r" % (m, name, M.shape))
        return False
    ok = ctx.near(name + "/orthonormal", O.ortho_defect(M), tol, "not-orthonormal/" + name, "%s.%s not orthonormal" % (m, name))
    ok &= ctx.near(name + "/det", abs(np.linalg.det(M) - 1), tol, "det-not-1/" + name, "%s.%s det=%r" % (m, name, np.linalg.det(M)))
    return ok


def check(case, ctx):
    import xfab
    from xfab import tools, laue
    m = case["mod"]
    mod = tools if m == "tools" else laue
    if case["k"] == "ctor":
        a1, a2, a3 = [x + 0.0 for x in case["a"]]
        big = max(abs(a1), abs(a2), abs(a3))
        # float sin/cos of arguments up to 1e3 are exact to 1 ulp; reference uses the same libm
        tol = 1e-12
        # history: the same constructors were just called with other arguments and the caller still holds the results
        b1, b2, b3 = a3 + 0.3, a1 - 0.2, a2 + 0.1
        xfab.CHECKS._run_checks = False
        for lab, val in (("euler_to_u", mod.euler_to_u(b1, b2, b3)), ("form_omega_mat", mod.form_omega_mat(b1)),
                         ("form_omega_mat(same omega)", mod.form_omega_mat(a1)),
                         ("form_omega_mat_general", mod.form_omega_mat_general(a1, b2, b3)), ("detect_tilt", mod.detect_tilt(b1, b2, b3)),
                         ("quart_to_omega", mod.quart_to_omega(case["omega_deg"], b2, b3)), ("rod_to_u", mod.rod_to_u([b1, b2, b3]))):
            ctx.keep("%s.%s" % (m, lab), val)
        E = ctx.keep("%s.euler_to_u(main)" % m, mod.euler_to_u(a1, a2, a3))
        if _proper(ctx, "euler_to_u", E, m):
            ctx.near("euler=RzRxRz", O.maxabs(E - O.euler_ref(a1, a2, a3)), tol, "euler_to_u/formula",
                     "%s.euler_to_u(%r,%r,%r) != Rz.Rx.Rz" % (m, a1, a2, a3))
        xfab.CHECKS._run_checks = True
        i1, i2, i3 = case["inr"]
        E2 = mod.euler_to_u(i1, i2, i3)     # in range: must be accepted with checks on
        ctx.near("euler(in-range)=RzRxRz", O.maxabs(np.asarray(E2, float) - O.euler_ref(i1, i2, i3)), tol, "euler_to_u/formula",
                 "%s.euler_to_u in range differs" % m)
        Om = ctx.keep("%s.form_omega_mat(main)" % m, mod.form_omega_mat(a1))
        if _proper(ctx, "form_omega_mat", Om, m):
            ctx.near("omega=Rz", O.maxabs(Om - O.Rz(a1)), tol, "form_omega_mat/formula", "%s.form_omega_mat(%r) != Rz" % (m, a1))
        Og = ctx.keep("%s.form_omega_mat_general(main)" % m, mod.form_omega_mat_general(a1, a2, a3))
        if _proper(ctx, "form_omega_mat_general", Og, m):
            ctx.near("omega_general=RxRyRz", O.maxabs(Og - O.Rx(a2) @ O.Ry(a3) @ O.Rz(a1)), tol, "form_omega_mat_general/formula",
                     "%s.form_omega_mat_general(%r,%r,%r) != Rx(chi)Ry(wedge)Rz(omega)" % (m, a1, a2, a3))
        ctx.later("%s.form_omega_mat_general" % m, mod.form_omega_mat_general, a1, 0.1, -0.2)
        ctx.later("%s.rod_to_u" % m, mod.rod_to_u, [0.1 * a1 / (1 + abs(a1)), 0.2, -0.3])
        T = mod.detect_tilt(a1, a2, a3)
        if _proper(ctx, "detect_tilt", T, m):
            ctx.near("tilt=RxRyRz", O.maxabs(T - O.Rx(a1) @ O.Ry(a2) @ O.Rz(a3)), tol, "detect_tilt/formula",
                     "%s.detect_tilt(%r,%r,%r) != RxRyRz" % (m, a1, a2, a3))
        wdeg = case["omega_deg"]
        Q = mod.quart_to_omega(wdeg, a2, a3)
        if _proper(ctx, "quart_to_omega", Q, m):
            P = O.Rx(a2) @ O.Ry(a3)
            ctx.near("quart=P.Rz.P'", O.maxabs(Q - P @ O.Rz(math.radians(wdeg)) @ P.T), tol, "quart_to_omega/formula",
                     "%s.quart_to_omega(%r deg,%r,%r) != P Rz P'" % (m, wdeg, a2, a3))
        d = np.array(case["rod"][:3], float)
        d /= np.linalg.norm(d)
        rn = case["rod"][3]
        r = O.ro(d * rn)
        R = mod.rod_to_u(r)
        ctx.nontrivial(rn > 100 or big > 100)
        ctx.event("ctor")
        if rn > 100:
            ctx.event("|r|>100")
        if _proper(ctx, "rod_to_u", R, m):
            ref = O.axis_angle(d, 2 * math.atan(rn)).T
            ctx.near("rod=axis-angle'", O.maxabs(R - ref), tol, "rod_to_u/formula", "%s.rod_to_u(%r) != transpose of active rotation" % (m, r.tolist()))
            # and back (rotation angle 2 atan|r| is < 180 deg for every finite r; within 1e-6 of 180 excluded)
            ang = math.degrees(2 * math.atan(rn))
            if 180 - ang > 1e-4:
                r2 = np.asarray(mod.u_to_rod(R), float)
                ctx.near("u_to_rod(rod_to_u)", O.maxabs(r2 - r) / max(1.0, rn) ** 2, 1e-7, "u_to_rod/roundtrip",
                         "%s.u_to_rod(rod_to_u(r)) %r != %r" % (m, r2.tolist(), r.tolist()))
        return

    # inverses
    U = S.build_rotation(case["rot"]) + 0.0
    if case["elem"] is not None:          # products of elementary rotations: entries may leave [-1,1] by an ulp
        t = case["elem"]
        U = U @ O.Rx(t) @ O.Rx(-t)
    if case["f32"]:
        U = U.astype(np.float32).astype(float)
    U = O.ro(U)
    Uarg = U
    if S.rot_is_axis(U, 0.0) and case.get("elem") is None and not case["f32"]:
        # an exactly axis-aligned orientation may well be typed as integers or nested lists by the caller
        Uarg = np.round(U).astype(int)
        ctx.event("inv/integer-typed-matrix")
    defect = O.ortho_defect(U)
    if defect < 1e-12:
        defect = 0.0            # an exact (to rounding) proper rotation: the property's own 1e-6 applies
    # an input that is itself only approximately a rotation (float32) determines phi1/phi2 only to
    # defect/sin(PHI): the allowance is the property's bound plus the input's own distance from SO(3),
    # amplified by the conditioning of the angle extraction
    sP = min(math.hypot(U[0, 2], U[1, 2]), math.hypot(U[2, 0], U[2, 1]))
    tol = 1e-6 + 4 * defect * (1 + (1 / sP if sP >= 1e-8 else 0))
    e_ = None
    spec = case["rot"]
    while spec["kind"] == "prod":
        spec = spec["b"]
    if spec["kind"] == "euler":
        e_ = spec["e"][1]
    near = (e_ is not None and min(abs(e_), abs(e_ - PI)) < 1e-3 and case["rot"]["kind"] == "euler")
    axis = S.rot_is_axis(U)
    PHI_true = math.acos(max(-1, min(1, U[2, 2])))
    near = near or min(PHI_true, PI - PHI_true) < 1e-3
    ctx.nontrivial(near or axis)
    ctx.event("inv/near-gimbal" if near else ("inv/axis-aligned" if axis else "inv/generic"))
    if case["f32"]:
        ctx.event("inv/float32-rounded")
    ang = np.asarray(ctx.keep("%s.u_to_euler" % m, mod.u_to_euler(Uarg)), float)
    if ang.shape != (3,) or not np.all(np.isfinite(ang)):
        ctx.fail("u_to_euler/non-finite", "%s.u_to_euler returned %r for U=%r" % (m, ang.tolist(), U.tolist()))
    else:
        p1, P, p2 = ang
        eps = 1e-12
        if not (-eps <= p1 <= 2 * PI + eps and -eps <= P <= PI + eps and -eps <= p2 <= 2 * PI + eps):
            ctx.fail("u_to_euler/range", "%s.u_to_euler angles %r outside [0,2pi]x[0,pi]x[0,2pi]" % (m, ang.tolist()))
        ctx.near("u_to_euler/rebuild", O.maxabs(O.euler_ref(p1, P, p2) - U), tol, "u_to_euler/rebuild",
                 "%s.u_to_euler(U) = %r rebuilds a different matrix (dev %g) for U=%r" % (m, ang.tolist(), O.maxabs(O.euler_ref(p1, P, p2) - U), U.tolist()))
    rang = O.rot_angle_deg(U)
    if 180 - rang > 1e-4:   # property excludes 180 deg +- 1e-6 deg; the trace cannot resolve the angle closer than ~1e-5 deg
        r = np.asarray(ctx.keep("%s.u_to_rod" % m, mod.u_to_rod(Uarg)), float)
        if r.shape != (3,) or not np.all(np.isfinite(r)):
            ctx.fail("u_to_rod/non-finite", "%s.u_to_rod returned %r" % (m, r.tolist()))
        else:
            Ub = np.asarray(mod.rod_to_u(r), float)
            # conditioning of the Rodrigues vector grows like 1/(1+trace) towards 180 deg
            amp = 4.0 / max(1 + np.trace(U), 1e-12)
            ctx.near("u_to_rod/rebuild", O.maxabs(Ub - U), 1e-6 + 4 * defect * amp, "u_to_rod/rebuild",
                     "%s.rod_to_u(u_to_rod(U)) differs by %g at rotation angle %r deg" % (m, O.maxabs(Ub - U), rang))
