import numpy as np, itertools
from xfab import detector as d
valid=[];bad=0
for o in itertools.product([-1,0,1],repeat=4):
    img=np.arange(12).reshape(3,4)
    res=[]
    for f in (lambda: d.trans_orientation(img,*o), lambda: d.image_flipping(img,*o), lambda: d.xy_to_detyz([1,2],*o,4,3), lambda: d.detyz_to_xy([1,2],*o,4,3),lambda: d.trans_orientation(img,*o,'inverse'), lambda: d.image_flipping(img,*o,'inverse')):
        try: f(); res.append('ok')
        except ValueError: res.append('VE')
        except Exception as e: res.append(type(e).__name__)
    if set(res)=={'ok'}: valid.append(o)
    elif set(res)!={'VE'}: print('mixed',o,res)
print(len(valid),valid)
fails=[]
for o in valid:
    for nx in range(1,9):
        for ny in range(1,9):
            img=np.arange(nx*ny).reshape(nx,ny)+1
            t=d.trans_orientation(img,*o); 
            if not np.array_equal(d.trans_orientation(t,*o,'inverse'),img): fails.append((o,nx,ny,'trans inv'))
            if not np.array_equal(d.trans_orientation(d.trans_orientation(img,*o,'inverse'),*o),img): fails.append((o,nx,ny,'trans inv2'))
            f=d.image_flipping(img,*o)
            if not np.array_equal(d.image_flipping(f,*o,'inverse'),img): fails.append((o,nx,ny,'flip inv'))
            for x in range(nx):
                for y in range(ny):
                    c=d.xy_to_detyz([x,y],*o,dety_size=ny,detz_size=nx)
                    ci=np.round(c).astype(int)
                    try:
                        if not (np.all(c==ci) and t[ci[0],ci[1]]==img[x,y] and min(ci)>=0): fails.append((o,nx,ny,x,y,'pixel map',c.tolist()))
                    except IndexError: fails.append((o,nx,ny,x,y,'index',c.tolist()))
                    b=d.detyz_to_xy(c,*o,dety_size=ny,detz_size=nx)
                    if not np.array_equal(b,[x,y]): fails.append((o,nx,ny,x,y,'xy inv',b.tolist()))
print(len(fails)); print(fails[:10])
from collections import Counter
print(Counter((f[0],f[-2] if isinstance(f[-1],list) else f[-1]) for f in fails))
