import numpy as np
from xfab import symmetry as s, tools, laue
orders=[None,1,2,4,8,6,12,24]
cells={1:[3,4,5,70,80,100],2:[3,4,5,90,105,90],3:[3,4,5,90,90,90],4:[3,3,5,90,90,90],5:[3,3,5,90,90,120],6:[3,3,5,90,90,120],7:[3,3,3,90,90,90]}
for cs in range(1,8):
    P=s.permutations(cs); R=s.rotations(cs)
    assert len(P)==len(R)==orders[cs]
    assert np.all(P==np.round(P)); assert np.allclose([abs(np.linalg.det(p)) for p in P],1)
    Ps=set(map(lambda m:tuple(m.astype(int).ravel()),P)); assert len(Ps)==len(P)
    assert all(tuple((a@b).astype(int).ravel()) in Ps for a in P for b in P)
    # R proper rotations group
    assert max(np.max(np.abs(r.T@r-np.eye(3))) for r in R)<1e-12, cs; assert max(abs(np.linalg.det(r)-1) for r in R)<1e-12
    cl=max(min(np.max(np.abs(a@b-c)) for c in R) for a in R for b in R); 
    B=tools.form_b_mat(cells[cs]); pair=max(np.max(np.abs(R[i]@B@P[i]-B)) for i in range(len(P)))/np.max(B)
    print(cs,'closure',cl,'pair',pair,'cache',np.max(np.abs(s.ROTATIONS[cs]-R)))
rng=np.random.default_rng(0)
from c02 import randU
