import numpy as np, sys, itertools, time
from xfab import sg, tools, laue
rhomb=[146,148,155,160,161,166,167]
settings=[(n,'standard') for n in range(1,231)]+[(n,'rhombohedral') for n in rhomb]
# exhaustive: sysabs vs operator oracle on box
H=np.array(list(itertools.product(range(-6,7),repeat=3)))
H=H[np.any(H!=0,axis=1)]
res={}
for no,ch in settings:
    g=sg.sg(sgno=no,cell_choice=ch)
    ext=np.zeros(len(H),bool)
    for R,t in zip(g.rot,g.trans):
        t24=np.round(np.array(t)*24).astype(int)
        ext|=np.all(H@R==H,axis=1)&((H@t24)%24!=0)
    sa=np.array([tools.sysabs(h,g.syscond,g.crystal_system,g.cell_choice)!=0 for h in H])
    fp=H[sa&~ext]; fn=H[~sa&ext]
    if len(fp) or len(fn):
        res[(no,ch)]=(g.name,len(fp),len(fn),fp[:3].tolist(),fn[:3].tolist())
for k,v in res.items(): print(k,v)
print(len(res))
