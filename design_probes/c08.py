import numpy as np, sys
from fractions import Fraction as Fr
from collections import defaultdict
from xfab import structure, sg, atomlib
from c05d import settings
rng=np.random.default_rng(12)
def conf_cell(g,rng):
    a,b,c=rng.uniform(3,9,3); cs=g.crystal_system
    if cs=='triclinic': return [a,b,c,*rng.uniform(70,110,3)]
    if cs=='monoclinic': return [a,b,c,90,rng.uniform(60,120),90]
    if cs=='orthorhombic': return [a,b,c,90,90,90]
    if cs=='tetragonal': return [a,a,c,90,90,90]
    if cs in('trigonal','hexagonal'): return [a,a,c,90,90,120]
    return [a,a,a,90,90,90]
def metric(cell):
    a,b,c,al,be,ga=cell; ca,cb,cg=np.cos(np.radians([al,be,ga]))
    G=np.array([[a*a,a*b*cg,a*c*cb],[a*b*cg,b*b,b*c*ca],[a*c*cb,b*c*ca,c*c]]); return G,np.linalg.inv(G)
els=['C','O','H']
def ff(el,s):
    v=atomlib.formfactor[el]; return sum(v[i]*np.exp(-v[i+4]*s*s) for i in range(4))+v[8]
grid=[Fr(0),Fr(1,4),Fr(1,3),Fr(1,2),Fr(2,3),Fr(3,4)]
def orbit(g,pos):
    out={}
    for j,(R,t) in enumerate(zip(g.rot,g.trans)):
        tt=[Fr(int(round(x*24)),24) for x in t]
        p=tuple((sum(int(R[i][k])*pos[k] for k in range(3))+tt[i]) for i in range(3))
        out.setdefault(tuple(x%1 for x in p),(j,p))
    return out
worst=defaultdict(float)
for no in range(1,231):
    g=sg.sg(sgno=no); cell=conf_cell(g,rng); G,Gs=metric(cell); astar=np.sqrt(np.diag(Gs))
    for kind in ('Uiso','Uani',None):
        atoms=[];model=[]
        disper={} if rng.random()<0.7 else None
        for i in range(3):
            special=rng.random()<0.5
            if special: posf=[grid[rng.integers(len(grid))] for _ in range(3)]
            else: posf=[Fr(int(rng.integers(1,9973)),9973) for _ in range(3)]
            orb=orbit(g,posf); mult=len(orb)
            shift=rng.integers(-2,3,3); pos=np.array([float(x) for x in posf])+shift
            el=els[rng.integers(3)]
            occ=rng.uniform(0.1,1)
            if kind=='Uiso': adp=rng.uniform(0.005,0.08); beta=None
            elif kind=='Uani':
                M=rng.standard_normal((3,3))*0.003; beta=M@M.T+1e-4*np.eye(3)
                # symmetrise over stabiliser
                stab=[R for R,t in zip(g.rot,g.trans) if tuple(((sum(int(R[i][k])*posf[k] for k in range(3))+Fr(int(round(t[i]*24)),24))%1) for i in range(3))==tuple(x%1 for x in posf)]
                beta=sum(R@beta@R.T for R in stab)/len(stab)
                Um=beta/(2*np.pi**2*np.outer(astar,astar)); adp=[Um[0,0],Um[1,1],Um[2,2],Um[1,2],Um[0,2],Um[0,1]]
            else: adp=None; beta=None
            atoms.append(structure.atom_entry(label='a',atomtype=el,pos=pos,adp_type=kind,adp=adp,occ=occ,symmulti=mult))
            if disper is not None: disper[el]=None if rng.random()<0.3 else [rng.uniform(-1,1),rng.uniform(0,1)]
            model.append((el,occ,orb,adp,beta))
        for t in range(4):
            h=rng.integers(-6,7,3) if t else np.array([0,0,0])
            s=0.5*np.sqrt(h@Gs@h)
            F=0
            for el,occ,orb,adp,beta in model:
                fp,fpp=(0,0) if disper is None or disper[el] is None else disper[el]
                f=ff(el,s)+fp+1j*fpp
                for key,(j,p) in orb.items():
                    R=g.rot[j]
                    if kind=='Uiso': dw=np.exp(-8*np.pi**2*adp*s*s)
                    elif kind=='Uani': dw=np.exp(-h@(R@beta@R.T)@h)
                    else: dw=1
                    F+=occ*f*dw*np.exp(2j*np.pi*float(sum(int(h[i])*p[i] for i in range(3))))
            got=complex(*structure.StructureFactor(h,cell,g.name,atoms,disper))
            scale=sum(o*len(ob)*ff(e,0) for e,o,ob,_,_ in model)
            worst[(kind,g.crystal_system)]=max(worst[(kind,g.crystal_system)],abs(got-F)/scale)
for k,v in sorted(worst.items(),key=str): print(k,v)
