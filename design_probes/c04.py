import numpy as np, itertools, fractions
from fractions import Fraction as Fr
from xfab import sg, sglib
def frac(t):
    return tuple(Fr(round(x*12),12) % 1 for x in t), max(abs(x*12-round(x*12)) for x in t)
rhomb=[146,148,155,160,161,166,167]
settings=[(n,'standard') for n in range(1,231)]+[(n,'rhombohedral') for n in rhomb]
laue_order={'-1':2,'2/m':4,'mmm':8,'4/m':8,'4/mmm':16,'-3':6,'-3m':12,'-3m1':12,'-31m':12,'6/m':12,'6/mmm':24,'m-3':24,'m-3m':48}
probs=[]
from collections import Counter
cc=Counter()
for no,ch in settings:
    g=sg.sg(sgno=no,cell_choice=ch)
    ops=[]
    maxerr=0
    for R,t in zip(g.rot,g.trans):
        ft,e=frac(t); maxerr=max(maxerr,e)
        ops.append((tuple(map(tuple,R.astype(int))),ft))
    if maxerr>1e-4: probs.append((no,ch,'trans not /12',maxerr))
    if len(ops)!=g.nsymop: probs.append((no,ch,'nsymop',len(ops),g.nsymop))
    if len(g.rot)!=len(g.trans): probs.append((no,ch,'len mismatch'))
    S=set(ops)
    if len(S)!=len(ops): probs.append((no,ch,'dups',len(ops)-len(S)))
    I=((1,0,0),(0,1,0),(0,0,1))
    if (I,(0,0,0)) not in S: probs.append((no,ch,'no identity'))
    # closure column convention
    def comp(a,b):
        R1,t1=np.array(a[0]),a[1]; R2,t2=np.array(b[0]),b[1]
        R=R1@R2
        t=tuple((sum(Fr(int(R1[i][j]))*t2[j] for j in range(3))+t1[i])%1 for i in range(3))
        return (tuple(map(tuple,R)),t)
    def comprow(a,b):
        # x' = x R + t : x R1 R2 + t1 R2 + t2
        R1,t1=np.array(a[0]),a[1]; R2,t2=np.array(b[0]),b[1]
        R=R1@R2
        t=tuple((sum(t1[j]*Fr(int(R2[j][i])) for j in range(3))+t2[i])%1 for i in range(3))
        return (tuple(map(tuple,R)),t)
    ncl=sum(1 for a in ops for b in ops if comp(a,b) not in S)
    nclr=sum(1 for a in ops for b in ops if comprow(a,b) not in S)
    if ncl: probs.append((no,ch,'not closed (col)',ncl))
    cc[(ncl==0,nclr==0)]+=1
    # nuniq
    rots=[o[0] for o in ops]
    uniq=rots[:g.nuniq]
    if len(set(uniq))!=g.nuniq: probs.append((no,ch,'first nuniq not distinct'))
    if set(uniq)!=set(rots): probs.append((no,ch,'first nuniq not all rots'))
    ncen=len(set(t for R,t in ops if R==I))
    if g.nsymop!=g.nuniq*ncen: probs.append((no,ch,'nsymop != nuniq*ncen',g.nsymop,g.nuniq,ncen))
    # Laue order
    PG=set(uniq)|set(tuple(map(tuple,-np.array(r))) for r in uniq)
    if len(PG)!=laue_order.get(g.Laue): probs.append((no,ch,'Laue order',g.Laue,len(PG)))
    dets=[round(np.linalg.det(np.array(r))) for r in uniq]
    if any(abs(d)!=1 for d in dets): probs.append((no,ch,'det'))
print(cc)
for p in probs: print(p)
print(len(settings))
