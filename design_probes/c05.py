import numpy as np, sys, itertools, time
from fractions import Fraction as Fr
from xfab import sg, tools, laue
rhomb=[146,148,155,160,161,166,167]
settings=[(n,'standard') for n in range(1,231)]+[(n,'rhombohedral') for n in rhomb]
rng=np.random.default_rng(int(sys.argv[1]) if len(sys.argv)>1 else 0)
def conf_cell(g,rng):
    a,b,c=rng.uniform(3,9,3)
    cs=g.crystal_system
    if g.cell_choice=='rhombohedral':
        al=rng.uniform(50,110); return [a,a,a,al,al,al]
    if cs=='triclinic':
        while True:
            al,be,ga=rng.uniform(60,120,3)
            ca,cb,cg=np.cos(np.radians([al,be,ga]))
            if 1-ca*ca-cb*cb-cg*cg+2*ca*cb*cg>0.1: return [a,b,c,al,be,ga]
    if cs=='monoclinic': return [a,b,c,90,rng.uniform(60,120),90]
    if cs=='orthorhombic': return [a,b,c,90,90,90]
    if cs=='tetragonal': return [a,a,c,90,90,90]
    if cs in('trigonal','hexagonal'): return [a,a,c,90,90,120]
    if cs=='cubic': return [a,a,a,90,90,90]
def oracle(g,cell,smin,smax):
    B=laue.form_b_mat(cell)
    # box
    hmax=[int(np.ceil(2*smax*cell[i]))+1 for i in range(3)]
    H=np.array(list(itertools.product(*[range(-m,m+1) for m in hmax])))
    stl=np.linalg.norm(H@B.T,axis=1)/2
    keep=(stl>smin)&(stl<=smax)
    H=H[keep]; stl=stl[keep]
    ext=np.zeros(len(H),bool)
    for R,t in zip(g.rot,g.trans):
        t12=np.round(np.array(t)*24).astype(int)
        fix=np.all(H@R==H,axis=1)
        ph=(H@t12)%24!=0
        ext|=fix&ph
    return H[~ext],stl[~ext],stl
if __name__!="__main__": raise SystemExit
bad=[]
t0=time.time()
for no,ch in settings:
    g=sg.sg(sgno=no,cell_choice=ch)
    cell=conf_cell(g,rng)
    smax=rng.uniform(0.25,0.45)
    smin=rng.choice([0,rng.uniform(0,0.2)])
    Ho,so,allstl=oracle(g,cell,smin,smax)
    got=tools.genhkl_all(cell,smin,smax,sgno=no,cell_choice=ch,output_stl=True)
    gs=set(map(tuple,np.round(got[:,:3]).astype(int)))
    os_=set(map(tuple,Ho))
    dup=len(got)-len(gs)
    missing=os_-gs; extra=gs-os_
    if missing or extra or dup:
        bad.append((no,ch,g.name,[round(x,3) for x in cell],round(smin,3),round(smax,3),len(os_),'missing',sorted(missing)[:6],len(missing),'extra',sorted(extra)[:6],len(extra),'dup',dup))
for b in bad: print(b)
print(len(bad),'bad of',len(settings),time.time()-t0)
