import numpy as np
from xfab import tools, laue
from c01 import gen
from c02 import randU
rng=np.random.default_rng(7)
w={}
def upd(k,v): w[k]=max(w.get(k,0),v)
for it in range(3000):
    cell=gen(); eps=rng.uniform(-0.1,0.1,6).tolist(); U=randU()
    for m in (tools,laue):
        nm=m.__name__[5:]
        B=m.epsilon_to_b(eps,cell); upd(nm+' rt',np.max(np.abs(np.array(m.b_to_epsilon(B,cell))-eps)))
        B0=m.form_b_mat(cell)
        upd(nm+' zero',np.max(np.abs(m.epsilon_to_b([0]*6,cell)-B0))/np.max(B0))
        T=B0@np.linalg.inv(B); E=0.5*(T+T.T)-np.eye(3)
        upd(nm+' def',np.max(np.abs(np.array(m.b_to_epsilon(B,cell))-[E[0,0],E[0,1],E[0,2],E[1,1],E[1,2],E[2,2]])))
        upd(nm+' rt2',np.max(np.abs(m.epsilon_to_b(m.b_to_epsilon(B,cell),cell)-B))/np.max(B))
        Bo=m.epsilon_to_b_old(eps,cell); upd(nm+' old rt',np.max(np.abs(np.array(m.b_to_epsilon_old(Bo,cell))-eps)))
        upd(nm+' old tri',max(abs(Bo[1,0]),abs(Bo[2,0]),abs(Bo[2,1])))
        upd(nm+' tri',max(abs(B[1,0]),abs(B[2,0]),abs(B[2,1]))/np.max(B))
        f=2*np.pi if m is tools else 1
        ubi=np.linalg.inv(U@B)*f
        U2,e2=m.ubi_to_u_and_eps(ubi,cell)
        upd(nm+' u&eps U',np.max(np.abs(U2-U))); upd(nm+' u&eps eps',np.max(np.abs(np.array(e2)-eps)))
for k,v in w.items(): print(k,v)
