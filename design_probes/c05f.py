import numpy as np, itertools, sys
from collections import Counter
from xfab import sg, tools
from scanmodel import SEG, scan, metric_stl, extinct
rhomb=[146,148,155,160,161,166,167]
sets=[(n,'standard') for n in range(1,16)]+[(n,'rhombohedral') for n in rhomb]
def gaps_shell(cell,rng,scale):
    stl=metric_stl(cell); hm=[int(np.ceil(2*0.5*cell[i]))+1 for i in range(3)]
    H=np.array(list(itertools.product(*[range(-m,m+1) for m in hm]))); 
    G=np.array([stl(h) for h in H[::1]]) if len(H)<4000 else None
    return None
def oracle(g,cell,smin,smax):
    from xfab import laue
    B=laue.form_b_mat(cell); hmax=[int(np.floor(2*smax*cell[i]))+1 for i in range(3)]
    H=np.array(list(itertools.product(*[range(-m,m+1) for m in hmax])))
    s=np.linalg.norm(H@B.T,axis=1)/2; keep=(s>smin)&(s<=smax)&np.any(H!=0,axis=1); H=H[keep]
    ext=np.zeros(len(H),bool)
    for R,t in zip(g.rot,g.trans):
        t24=np.round(np.array(t)*24).astype(int); ext|=np.all(H@R==H,axis=1)&((H@t24)%24!=0)
    return set(map(tuple,H[~ext].tolist()))
cnt=Counter()
for seed in range(int(sys.argv[1])):
    rng=np.random.default_rng(900+seed)
    for no,ch in sets:
        g=sg.sg(sgno=no,cell_choice=ch)
        a,b,c=rng.uniform(3,9,3)
        if ch=='rhombohedral': al=rng.uniform(45,112); cell=[a,a,a,al,al,al]
        elif g.crystal_system=='monoclinic': cell=[a,b,c,90,rng.uniform(60,120),90]
        else:
            while True:
                ang=rng.uniform(60,120,3); ca,cb,cg=np.cos(np.radians(ang))
                if 1-ca*ca-cb*cb-cg*cg+2*ca*cb*cg>0.15: break
            cell=[a,b,c,*ang]
        smax=rng.uniform(0.2,0.45); smin=rng.choice([0,rng.uniform(0,0.15)])
        scale=1.1 if (g.Laue=='-3' and ch=='rhombohedral') else 1
        O=oracle(g,cell,smin,smax)
        A=tools.genhkl_all(cell,smin,smax,sgno=no,cell_choice=ch); As=set(map(tuple,np.round(A).astype(int).tolist()))
        assert len(As)==len(A)
        V=set(scan(cell,SEG[(g.Laue,ch=='rhombohedral')],smax*scale))
        PG=np.concatenate([g.rot[:g.nuniq],-g.rot[:g.nuniq]]).astype(int)
        extra=As-O; missing=O-As
        unexplained=[h for h in missing if any(tuple(x) in V for x in (np.array(h)@PG).tolist())]
        # also everything visited&allowed must be present
        cnt[(g.Laue,ch,'extra' if extra else '', 'UNEXPLAINED' if unexplained else ('known' if missing else 'complete'))]+=1
for k,v in sorted(cnt.items()): print(k,v)
