import numpy as np
from xfab import tools
from c02 import randU
rng=np.random.default_rng(22)
w=0; ws=0
for it in range(20000):
    U0=randU(); d=np.exp(rng.uniform(np.log(1e-3),np.log(1e3),3)); B0=np.diag(d)
    B0[0,1],B0[0,2],B0[1,2]=rng.uniform(-1,1,3)*np.array([min(d[0],d[1]),min(d[0],d[2]),min(d[1],d[2])])*10**rng.uniform(-3,1)
    c=np.linalg.cond(B0)
    if c>1e6: continue
    U,B=tools.ub_to_u_b(U0@B0)
    eu=np.max(np.abs(U-U0)); eb=np.max(np.abs(B-B0))/np.max(np.abs(B0))
    w=max(w,eu/c,eb/c); ws=max(ws,eu,eb)
print('max err/cond',w,'max err',ws)
