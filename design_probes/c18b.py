import numpy as np, itertools
from collections import Counter
from xfab import tools, laue
from c18 import G_of, cell_of, UNI, same_lattice
rng=np.random.default_rng(19)
def A_of(cell):
    G=G_of(cell); return np.linalg.cholesky(G).T   # upper triangular A with A^T A = G
def signature(cell,out,uvw=3):
    A=A_of(cell); Gout=G_of(out)
    idx=np.array(list(itertools.product(range(-uvw,uvw),repeat=3)))
    idx=idx[np.any(idx!=0,axis=1)]
    V=idx@A.T; nr=np.linalg.norm(V,axis=1)
    order=np.argsort(nr,kind='stable'); idx=idx[order]; V=V[order]; nr=nr[order]
    tol=1e-9*nr[0]
    # successive minima
    l1=nr[0]
    c1=[i for i in range(len(nr)) if nr[i]<=l1+tol]
    # second: shortest not collinear with first
    def noncol(i,j): return np.sum(np.abs(np.cross(V[i],V[j])))>1e-5
    l2=min(nr[j] for j in range(len(nr)) if noncol(c1[0],j))
    c2=[j for j in range(len(nr)) if nr[j]<=l2+tol]
    sols=[]
    for i in c1:
        for j in c2:
            if not noncol(i,j): continue
            k_=np.cross(V[j],V[i])
            ks=[k for k in range(len(nr)) if (k_@V[k])/np.linalg.norm(k_)>1e-5]
            l3=min(nr[k] for k in ks)
            for k in ks:
                if nr[k]>l3+tol: continue
                R=np.array([V[i],V[j],V[k]])
                for name,Gm in (('bug',R.T@R),('correct',R@R.T)):
                    if np.allclose(Gm,Gout,rtol=0,atol=1e-8*np.max(Gout)): sols.append(name)
    return set(sols)
cnt=Counter()
for it in range(400):
    kind=rng.choice(['ortho','tri','transformed','hex','cubic'])
    if kind=='ortho': cell=[*rng.uniform(3,9,3),90,90,90]
    elif kind=='hex': a=rng.uniform(3,9); cell=[a,a,rng.uniform(3,9),90,90,120]
    elif kind=='cubic': a=rng.uniform(3,9); cell=[a,a,a,90,90,90]
    else:
        a,b,c=np.sort(rng.uniform(3,6,3)); cell=[a,b,c,*rng.uniform(75,105,3)]
        if kind=='transformed':
            M=UNI[rng.integers(len(UNI))]; cell=cell_of(M.T@G_of(cell)@M)
    out=tools.reduce_cell(cell)
    if np.any(np.isnan(out)): cnt[(kind,'nan')]+=1; continue
    s=signature(cell,out)
    lat=same_lattice(G_of(cell),G_of(out)) is not None
    cnt[(kind,tuple(sorted(s)),lat)]+=1
    if not s and cnt[(kind,(),lat)]<3: print(kind,cell,out)
for k,v in sorted(cnt.items(),key=str): print(k,v)
