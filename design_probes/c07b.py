import numpy as np
from collections import defaultdict
from xfab import structure, sg, atomlib
from c08 import conf_cell
rng=np.random.default_rng(71)
els=list(atomlib.formfactor.keys())
worst=0; worstratio=0; maxbound=0; n=0
for rep in range(3):
  for no in range(1,231):
    g=sg.sg(sgno=no); cell=conf_cell(g,rng)
    dt=np.max(np.abs(g.trans-np.round(g.trans*24)/24))
    for kind in ('Uiso','Uani',None):
        atoms=[]
        for i in range(rng.integers(1,4)):
            pos=rng.integers(1,9973,3)/9973
            if kind=='Uiso': adp=rng.uniform(0.002,0.1)
            elif kind=='Uani':
                M=rng.standard_normal((3,3))*0.1; S=M@M.T+0.002*np.eye(3); adp=[S[0,0],S[1,1],S[2,2],S[1,2],S[0,2],S[0,1]]
            else: adp=None
            atoms.append(structure.atom_entry(label='a',atomtype=els[rng.integers(len(els))],pos=pos,adp_type=kind,adp=adp,occ=rng.uniform(0.05,1),symmulti=g.nsymop))
        f0=[a.occ*structure.FormFactor(a.atomtype,0) for a in atoms]
        S=sum(f0)*g.nsymop
        for t in range(3):
            h=rng.integers(-8,9,3); j=rng.integers(g.nsymop); R=g.rot[j]; tr=np.round(g.trans[j]*24)/24
            F=complex(*structure.StructureFactor(h,cell,g.name,atoms)); F2=complex(*structure.StructureFactor(h@R,cell,g.name,atoms))
            res=abs(F2-F*np.exp(-2j*np.pi*(h@tr)))
            h1=max(np.sum(np.abs(h)),np.sum(np.abs(h@R)))
            bound=1e-9*S+4*np.pi*sum(f0)*g.nsymop*h1*dt
            worst=max(worst,res/S); maxbound=max(maxbound,bound/S); n+=1
            if bound>0: worstratio=max(worstratio,res/bound)
print(n,'worst res/S',worst,'max bound/S',maxbound,'worst res/bound',worstratio)
