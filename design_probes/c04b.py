import numpy as np, warnings
from collections import Counter, defaultdict
from xfab import sg
rhomb=[146,148,155,160,161,166,167]
settings=[(n,'standard') for n in range(1,231)]+[(n,'rhombohedral') for n in rhomb]
d=defaultdict(list)
for no,ch in settings:
    g=sg.sg(sgno=no,cell_choice=ch)
    d[(g.crystal_system,g.Laue,g.cell_choice)].append(no)
for k,v in d.items(): print(k, v if len(v)<12 else (v[0],'..',v[-1],len(v)))
# name consistency
from xfab.sg import sgdic
bad=[]
for name,kl in sgdic.items():
    g=sg.sg(sgname=name)
    no=int(kl[2:])
    nm=g.name.lower().replace(' ','')
    if g.no!=no or nm!=name: bad.append((name,kl,g.no,g.name,g.cell_choice))
print(bad)
