import numpy as np, time, os, tempfile
from xfab import structure
cif="""data_test
_symmetry_space_group_name_H-M 'P 63/m m c'
_cell_length_a 5.123(4)
_cell_length_b 5.123(4)
_cell_length_c 8.5
_cell_angle_alpha 90
_cell_angle_beta 90.0
_cell_angle_gamma 120.000(1)
loop_
_atom_type_symbol
_atom_type_scat_dispersion_real
_atom_type_scat_dispersion_imag
Fe 0.3463 0.8444
O 0.0106(3) 0.0060
loop_
_atom_site_label
_atom_site_type_symbol
_atom_site_fract_x
_atom_site_fract_y
_atom_site_fract_z
_atom_site_U_iso_or_equiv
_atom_site_adp_type
_atom_site_occupancy
_atom_site_symmetry_multiplicity
Fe1 Fe 0.3333 0.6667 0.25 0.0123(4) Uani 1 2
O1 O 0.1234(5) -0.2345(6) 0.5 0.02 Uiso 0.5(1) 12
loop_
_atom_site_aniso_label
_atom_site_aniso_U_11
_atom_site_aniso_U_22
_atom_site_aniso_U_33
_atom_site_aniso_U_23
_atom_site_aniso_U_13
_atom_site_aniso_U_12
Fe1 0.011(1) 0.022 0.033 0.0023 0.0013 0.0012(3)
"""
d=tempfile.mkdtemp(); p=os.path.join(d,'t.cif'); open(p,'w').write(cif)
t0=time.time()
for i in range(5):
    b=structure.build_atomlist(); b.CIFread(p)
print((time.time()-t0)/5,'s per read')
al=b.atomlist
print(al.cell,al.sgname,al.dispersion)
for a in al.atom: print(a.label,a.atomtype,a.pos,a.adp_type,a.adp,a.occ,a.symmulti)
