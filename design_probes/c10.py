import numpy as np
from xfab import detector as d, tools
rng=np.random.default_rng(10)
w={}
def upd(k,v): w[k]=max(w.get(k,0),v)
for it in range(20000):
    tth=np.radians(rng.uniform(0.5,60)); eta=rng.uniform(-2*np.pi,2*np.pi)
    R=tools.detect_tilt(*rng.uniform(-0.3,0.3,3)); L=10**rng.uniform(1,3); py,pz=10**rng.uniform(-2,np.log10(0.5),2)
    y0,z0=rng.uniform(-3000,3000,2); t=rng.uniform(-2,2,3); lam=rng.uniform(0.1,2)
    v=np.array([np.cos(tth),-np.sin(tth)*np.sin(eta),np.sin(tth)*np.cos(eta)])
    Gt=2*np.pi/lam*(v-np.array([1,0,0]))
    p1=d.det_coor(Gt,np.cos(tth),lam,L,py,pz,y0,z0,R,*t); p2=d.det_coor2(tth,eta,L,py,pz,y0,z0,R,*t)
    upd('same pixel',max(abs(p1[0]-p2[0]),abs(p1[1]-p2[1])))
    lab=np.array(d.detector_to_lab(p2[0],p2[1],L,py,pz,y0,z0,R))
    r=lab-t; s=r@v
    upd('off-ray (mm)',np.linalg.norm(r-s*v)); assert s>0
    upd('plane',abs(R[:,0]@(lab-np.array([L,0,0]))))
    upd('det_v',np.max(np.abs(d.det_v(Gt,np.cos(tth),lam,L,py,pz,y0,z0,R,*t)-v)))
    # eta/rad
    e=rng.uniform(0,360); rad=10**rng.uniform(0,4)
    c=d.eta_and_radpix_to_detyz(e,rad,y0,z0); e2,r2=d.detyz_to_eta_and_radpix(c,y0,z0)
    de=abs((e2-e+180)%360-180); upd('eta rt (deg*rad)',de*rad); upd('rad rt',abs(r2-rad)/rad)
    c2=d.eta_and_radpix_to_detyz(e2,r2,y0,z0); upd('detyz rt',np.max(np.abs(c2-c)))
print(w)
