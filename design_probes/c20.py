import numpy as np, xfab
from xfab import tools, laue, symmetry, checks
from c02 import randU
rng=np.random.default_rng(21)
from collections import Counter
cnt=Counter()
for it in range(3000):
    U=randU()
    U32=U.astype(np.float32).astype(float)
    Up=U+rng.uniform(-1,1,(3,3))*1e-7
    for name,M in (('exact',U),('f32',U32),('pert1e-7',Up),('pert1e-8',U+rng.uniform(-1,1,(3,3))*1e-8)):
        try: checks._check_rotation_matrix(M); cnt[(name,'ok')]+=1
        except ValueError as e: cnt[(name,'rejected',str(e)[:30])]+=1
print(cnt)
U=randU().astype(np.float32)
for f in (tools.u_to_euler,tools.u_to_rod,lambda u:tools.u_to_ubi(u,[3,4,5,90,90,90])):
    try: f(U); print('ok')
    except ValueError as e: print('VE',e)
