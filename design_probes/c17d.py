import numpy as np, os, tempfile, shutil, re
from fractions import Fraction as Fr
from collections import Counter
from xfab import structure, sg
rng=np.random.default_rng(171)
def tokens(name):
    # split an H-M short symbol (e.g. 'P63/mmc','I41/amd','P-42m','Fd-3m','P212121','R-3c') into lattice + direction symbols
    lat,rest=name[0],name[1:]
    out=[];i=0
    while i<len(rest):
        j=i
        if rest[j]=='-': j+=1
        ch=rest[j]; j+=1
        if ch.isdigit():
            # screw axis subscript: digit following an axis digit, smaller than it
            if j<len(rest) and rest[j].isdigit() and int(rest[j])<int(ch): j+=1
            if j<len(rest) and rest[j]=='/': j+=2
        out.append(rest[i:j]); i=j
    return [lat]+out
def pdb_symbol(g,rng):
    t=tokens(g.name)
    if g.crystal_system=='monoclinic' and rng.random()<0.7: t=[t[0],'1',t[1],'1']
    return ' '.join(t)
def conf_cell(g):
    a,b,c=np.round(rng.uniform(5,60,3),3); cs=g.crystal_system
    if cs=='triclinic': return [a,b,c,*np.round(rng.uniform(70,110,3),2)]
    if cs=='monoclinic': return [a,b,c,90,float(np.round(rng.uniform(91,120),2)),90]
    if cs=='orthorhombic': return [a,b,c,90,90,90]
    if cs=='tetragonal': return [a,a,c,90,90,90]
    if cs in('trigonal','hexagonal'): return [a,a,c,90,90,120]
    return [a,a,a,90,90,90]
def A_of(cell):
    a,b,c,al,be,ga=cell; ca,cb,cg=np.cos(np.radians([al,be,ga])); sg_=np.sin(np.radians(ga))
    v=np.sqrt(1-ca*ca-cb*cb-cg*cg+2*ca*cb*cg)
    return np.array([[a,b*cg,c*cb],[0,b*sg_,c*(ca-cb*cg)/sg_],[0,0,c*v/sg_]])
d=tempfile.mkdtemp(); cnt=Counter(); bad=[]
els=['C','N','O','S','FE','ZN','CL','H','SE','MG']
# check tokenizer on all names
for no in range(1,231):
    g=sg.sg(sgno=no); assert ''.join(tokens(g.name))==g.name
for it in range(1500):
    no=int(rng.integers(1,231)); g=sg.sg(sgno=no); cell=conf_cell(g); sym=pdb_symbol(g,rng)
    if len(sym)>11: cnt['symbol too long']+=1; continue
    A=A_of(cell); S=np.linalg.inv(A); 
    L=["HEADER    TEST","CRYST1%9.3f%9.3f%9.3f%7.2f%7.2f%7.2f %-11s%4d"%(*cell,sym,g.nsymop)]
    scale=[]
    for i in range(3):
        row="SCALE%d    %10.6f%10.6f%10.6f     %10.5f"%(i+1,*S[i],0.0); L.append(row); scale.append([float(row[10:20]),float(row[20:30]),float(row[30:40]),float(row[45:55])])
    scale=np.array(scale); atoms=[]
    for k in range(rng.integers(1,8)):
        special=rng.random()<0.3
        frac=np.array([rng.choice([0,0.25,0.5,0.75]) for _ in range(3)]) if special else rng.uniform(0.02,0.98,3)
        xyz=A@frac; el=els[rng.integers(len(els))]; name=(el.capitalize()+str(k))[:4]
        occ=round(rng.uniform(0.1,1),2); b=round(rng.uniform(1,90),2)
        rec=rng.choice(['ATOM  ','HETATM'])
        line="%s%5d %-4s %3s %1s%4d    %8.3f%8.3f%8.3f%6.2f%6.2f          %2s  "%(rec,k+1,name,'ALA','A',k+1,*xyz,occ,b,el.rjust(2))
        L.append(line)
        px=[float(line[30:38]),float(line[38:46]),float(line[46:54])]
        atoms.append(dict(label=name.strip(),atomtype=el,pos=scale@np.array(px+[1.0]),adp=float(line[60:66])/(8*np.pi**2),occ=float(line[54:60])))
    p=os.path.join(d,'t.pdb'); open(p,'w').write('\n'.join(L)+'\nEND\n')
    try:
        b_=structure.build_atomlist(); b_.PDBread(p); al=b_.atomlist
    except Exception as ex:
        cnt['exc '+type(ex).__name__+' '+str(ex)[:20]]+=1; 
        if len(bad)<3: bad.append((sym,repr(ex)))
        continue
    ok = al.cell==[float(x) for x in cell] and al.sgname==g.name.lower() and sg.sg(sgname=al.sgname).no==no and len(al.atom)==len(atoms)
    for a,e in zip(al.atom,atoms):
        ok&= a.label==e['label'] and a.atomtype==e['atomtype'] and np.allclose(a.pos,e['pos'],rtol=0,atol=1e-12) and a.adp==e['adp'] and a.adp_type=='Uiso' and a.occ==e['occ']
        # multiplicity vs float-tolerant orbit count
        imgs=[]
        for R,t in zip(g.rot,g.trans):
            q=R@e['pos']+t
            if not any(np.sum(np.abs((q-r)-np.round(q-r)))<1e-5 for r in imgs): imgs.append(q)
        ok&= a.symmulti==len(imgs)
    ok&= al.dispersion=={e['atomtype']:None for e in atoms}
    cnt['ok' if ok else 'MISMATCH']+=1
    if not ok and len(bad)<3: bad.append((sym,al.sgname,al.cell,cell,[(a.label,a.atomtype,a.pos,a.adp,a.occ,a.symmulti) for a in al.atom],atoms))
print(cnt); 
for b in bad: print(b)
shutil.rmtree(d)
