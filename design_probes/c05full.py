import numpy as np, itertools, sys, time
from collections import Counter
from multiprocessing import Pool
from xfab import sg, tools, laue
from scanmodel import SEG, scan
rhomb=[146,148,155,160,161,166,167]
settings=[(n,'standard') for n in range(1,231)]+[(n,'rhombohedral') for n in rhomb]
AFFECTED={('-1','standard'),('2/m','standard'),('-3','rhombohedral'),('-3m','rhombohedral')}
def metric(cell):
    a,b,c,al,be,ga=cell; ca,cb,cg=np.cos(np.radians([al,be,ga]))
    G=np.array([[a*a,a*b*cg,a*c*cb],[a*b*cg,b*b,b*c*ca],[a*c*cb,b*c*ca,c*c]]); return G,np.linalg.inv(G)
def draw_cell(g,rng):
    a,b,c=rng.uniform(2.5,12,3); cs=g.crystal_system; orth=rng.random()<0.25
    if g.cell_choice=='rhombohedral':
        al=90. if orth else rng.uniform(40,115); return [a,a,a,al,al,al]
    if cs=='triclinic':
        if orth: return [a,b,c,90.,90.,90.]
        al,be=rng.uniform(55,125,2); sa,sb=np.sin(np.radians([al,be])); ca,cb=np.cos(np.radians([al,be]))
        cg=ca*cb+rng.uniform(-1,1)*np.sqrt(max(sa*sa*sb*sb-0.1,0)); return [a,b,c,al,be,float(np.degrees(np.arccos(cg)))]
    if cs=='monoclinic': return [a,b,c,90.,90. if orth else rng.uniform(60,120),90.]
    if cs=='orthorhombic': return [a,b,c,90.,90.,90.]
    if cs=='tetragonal': return [a,a,c,90.,90.,90.]
    if cs in('trigonal','hexagonal'): return [a,a,c,90.,90.,120.]
    return [a,a,a,90.,90.,90.]
def lattice(cell,smax_cap):
    G,Gs=metric(cell)
    hm=[int(np.floor(2*smax_cap*cell[i]))+1 for i in range(3)]
    H=np.array(list(itertools.product(*[range(-m,m+1) for m in hm])))
    H=H[np.any(H!=0,axis=1)]
    s=0.5*np.sqrt(np.einsum('ij,jk,ik->i',H,Gs,H))
    return H,s
def work(args):
    (no,ch),seed,ncase=args
    rng=np.random.default_rng([seed,no,ch=='rhombohedral'])
    g=sg.sg(sgno=no,cell_choice=ch); out=Counter(); fails=[]
    scale=1.1 if (g.Laue=='-3' and ch=='rhombohedral') else 1.0
    PG=np.concatenate([g.rot[:g.nuniq],-g.rot[:g.nuniq]]).astype(int)
    for it in range(ncase):
        cell=draw_cell(g,rng)
        G,Gs=metric(cell); V=np.sqrt(np.linalg.det(G))
        # cap so that sphere holds <= ~1500 points: N ~ (4/3)pi (2s)^3 V
        cap=min(0.6,0.5*(1500*3/(4*np.pi*V))**(1/3))
        H,s=lattice(cell,cap*1.1+1e-9)
        us=np.unique(np.concatenate([s,s/scale]))
        us=us[(us<=cap)]
        if len(us)<3: out['tiny']+=1; continue
        gaps=np.where(np.diff(us)/us[1:]>4e-9)[0]
        k=gaps[rng.integers(len(gaps))]; smax=0.5*(us[k]+us[k+1])
        if rng.random()<0.5: smin=0.0
        else:
            kk=gaps[gaps<=k]; j=kk[rng.integers(len(kk))]; smin=0.5*(us[j]+us[j+1]) if j<k else 0.0
        keep=(s>smin)&(s<=smax); Hs=H[keep]
        ext=np.zeros(len(Hs),bool)
        for R,t in zip(g.rot,g.trans):
            t24=np.round(np.array(t)*24).astype(int); ext|=np.all(Hs@R==Hs,axis=1)&((Hs@t24)%24!=0)
        O=set(map(tuple,Hs[~ext].tolist()))
        np.random.seed(int(rng.integers(2**31)))
        byname=rng.random()<0.5
        kw=dict(sgname=g.name) if byname and ch!='rhombohedral' else dict(sgno=no,cell_choice=ch)
        A=tools.genhkl_all(cell,smin,smax,**kw)
        As=set(map(tuple,np.round(A).astype(int).tolist()))
        if len(As)!=len(A): fails.append(('dup',no,ch,cell,smin,smax)); continue
        extra=As-O; missing=O-As
        if extra: fails.append(('extra',no,ch,cell,smin,smax,sorted(extra)[:3])); continue
        if missing:
            if (g.Laue,ch) in AFFECTED:
                Vs=set(scan(cell,SEG[(g.Laue,ch=='rhombohedral')],smax*scale))
                un=[h for h in missing if any(tuple(x) in Vs for x in (np.array(h)@PG).tolist())]
                if un: fails.append(('unexplained',no,ch,cell,smin,smax,un[:3]))
                else: out['known']+=1
            else: fails.append(('missing',no,ch,cell,smin,smax,sorted(missing)[:3]))
        else: out['exact']+=1
        if ext.any(): out['nontrivial-ext']+=1
    return (no,ch),out,fails
if __name__=='__main__':
    seed=int(sys.argv[1]); ncase=int(sys.argv[2]); t0=time.time()
    with Pool(16) as p: res=p.map(work,[(s,seed,ncase) for s in settings],chunksize=4)
    tot=Counter(); F=[]
    for s,o,f in res: tot.update(o); F+=f
    print(tot,'fails',len(F),'time',time.time()-t0)
    for f in F[:10]: print(f)
