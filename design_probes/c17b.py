import numpy as np, os, tempfile
from xfab import structure, sg, tools
def pdb_text(cell,sym,atoms,scale):
    L=["CRYST1%9.3f%9.3f%9.3f%7.2f%7.2f%7.2f %-11s%4d"%(*cell,sym,1)]
    for i in range(3): L.append("SCALE%d    %10.6f%10.6f%10.6f     %10.5f"%(i+1,*scale[i]))
    for n,(name,el,xyz,occ,b) in enumerate(atoms):
        L.append("ATOM  %5d %-4s %3s %1s%4d    %8.3f%8.3f%8.3f%6.2f%6.2f          %2s  "%(n+1,name,'ALA','A',1,*xyz,occ,b,el.rjust(2)))
    return "\n".join(L)+"\nEND\n"
d=tempfile.mkdtemp()
for sym,no in [('P 1 21 1',4),('P 43 21 2',96),('P 1',1),('P 3 1 2',149),('P 3 2 1',150),('C 1 2 1',5),('P -1',2),('R 3 2',155),('H 3',146),('P 3 m 1',156),('P 21 21 21',19),('F 4 3 2',209),('I 41/a m d',141)]:
    cell=[10.0,12.0,15.0,90,90,90]
    A=tools.form_a_mat(cell); S=np.linalg.inv(A); scale=np.hstack([S,[[0.],[0.],[0.]]])
    atoms=[('CA','C',(1.234,5.678,-2.5),1.0,12.34),('FE','FE',(3.3,4.4,5.5),0.5,20.0)]
    p=os.path.join(d,'t.pdb'); open(p,'w').write(pdb_text(cell,sym,atoms,scale))
    b=structure.build_atomlist()
    try:
        b.PDBread(p); al=b.atomlist
        try: got=sg.sg(sgname=al.sgname).no
        except Exception as e: got=repr(e)
        print(sym,no,'->',al.sgname,got,al.cell,[(a.label,a.atomtype,np.round(a.pos,4).tolist(),round(a.adp*8*np.pi**2,3),a.occ,a.symmulti) for a in al.atom][:1])
    except Exception as e: print(sym,no,'EXC',type(e).__name__,e)
