import numpy as np
from xfab import tools, laue
from c01 import gen
rng=np.random.default_rng(2)
def randU():
    q=rng.standard_normal(4); q/=np.linalg.norm(q); w,x,y,z=q
    return np.array([[1-2*(y*y+z*z),2*(x*y-z*w),2*(x*z+y*w)],[2*(x*y+z*w),1-2*(x*x+z*z),2*(y*z-x*w)],[2*(x*z-y*w),2*(y*z+x*w),1-2*(x*x+y*y)]])
worst={}
def upd(k,v): worst[k]=max(worst.get(k,0),v)
for it in range(5000):
    cell=gen(); U=randU()
    for m,f in ((tools,2*np.pi),(laue,1.0)):
        B=m.form_b_mat(cell); ubi=m.u_to_ubi(U,cell)
        h=rng.integers(-9,10,3)
        upd(m.__name__+' ubi.g',np.max(np.abs(ubi@(U@B@h)-f*h)))
        upd(m.__name__+' ubi2u',np.max(np.abs(m.ubi_to_u(ubi)-U)))
        upd(m.__name__+' ubi2cell',np.max(np.abs(m.ubi_to_cell(ubi)/cell-1)))
        U2,B2=m.ubi_to_u_b(ubi)
        upd(m.__name__+' ubi2ub U',np.max(np.abs(U2-U))); upd(m.__name__+' ubi2ub B',np.max(np.abs(B2-B)/np.max(np.abs(B))))
        # rows of ubi are lattice vectors: ubi@ubi.T = G
        # random UB with det>0
        while True:
            M=rng.standard_normal((3,3))*np.exp(rng.uniform(-2,2))
            if np.linalg.det(M)>0 and np.linalg.cond(M)<1e6: break
        U3,B3=m.ub_to_u_b(M)
        upd(m.__name__+' qr prod',np.max(np.abs(U3@B3-M))/np.max(np.abs(M))); upd(m.__name__+' qr orth',np.max(np.abs(U3.T@U3-np.eye(3))))
        upd(m.__name__+' qr det',abs(np.linalg.det(U3)-1)); upd(m.__name__+' qr tri',max(abs(B3[1,0]),abs(B3[2,0]),abs(B3[2,1]))/np.max(np.abs(B3)))
        assert min(np.diag(B3))>0
        r=m.ubi_to_rod(ubi); upd(m.__name__+' rod',np.max(np.abs(m.rod_to_u(r)-U)) if abs(np.trace(U)+1)>1e-3 else 0)
for k,v in worst.items(): print(k,v)
