import numpy as np, os, tempfile, shutil
from collections import Counter
from xfab import structure, sg
rng=np.random.default_rng(17)
names=[sg.sg(sgno=n).name for n in range(1,231)]
def spaced(nm):  # insert blanks randomly
    return ''.join(ch+(' ' if rng.random()<0.4 else '') for ch in nm).strip()
def num(x,dec,esd):
    s=f"{x:.{dec}f}"
    return (s+"(%d)"%rng.integers(1,99) if esd else s), float(s)
d=tempfile.mkdtemp(); cnt=Counter(); bad=[]
for it in range(600):
    nm=names[rng.integers(230)]; L=[]; exp={}
    if rng.random()<0.3: L+=["data_global","_journal_name 'x'",""]
    L+=["data_blk%d"%it, "_symmetry_space_group_name_H-M '%s'"%spaced(nm)]
    cell=[];
    for key,lo,hi in (('length_a',3,20),('length_b',3,20),('length_c',3,20),('angle_alpha',60,120),('angle_beta',60,120),('angle_gamma',60,120)):
        t,v=num(rng.uniform(lo,hi),rng.integers(0,5),rng.random()<0.5); L.append("_cell_%s %s"%(key,t)); cell.append(v)
    nat=rng.integers(1,7); els=['C','O','Fe','Si','N','H','Cu','Cl']
    atoms=[]
    kinds=[rng.choice(['Uiso','Uani','Biso','Bani']) for _ in range(nat)] if rng.random()<0.8 else [None]*nat
    have_type=rng.random()<0.6; have_disp=rng.random()<0.7
    used=sorted({els[rng.integers(len(els))] for _ in range(nat)})
    disp={}
    if have_type:
        L+=["loop_","_atom_type_symbol"]+(["_atom_type_scat_dispersion_real","_atom_type_scat_dispersion_imag"] if have_disp else ["_atom_type_description"])
        for e in used:
            if have_disp:
                t1,v1=num(rng.uniform(-1,1),4,rng.random()<0.3); t2,v2=num(rng.uniform(0,2),4,False); L.append(f"{e} {t1} {t2}"); disp[e.upper()]=[v1,v2]
            else: L.append(f"{e} 'x'"); disp[e.upper()]=None
    else:
        for e in used: disp[e.upper()]=None
    have_occ=rng.random()<0.6; mk=rng.choice(['_atom_site_symmetry_multiplicity','_atom_site_symetry_multiplicity',None]); have_adp=any(k is not None for k in kinds)
    cols=["_atom_site_label","_atom_site_type_symbol","_atom_site_fract_x","_atom_site_fract_y","_atom_site_fract_z"]
    if have_adp: cols+=["_atom_site_adp_type","_atom_site_U_iso_or_equiv","_atom_site_B_iso_or_equiv"]
    if have_occ: cols.append("_atom_site_occupancy")
    if mk: cols.append(mk)
    L+=["loop_"]+cols
    aniso=[]
    for i in range(nat):
        lab="%s%d"%(used[i%len(used)],i+1); el=used[i%len(used)]
        row=[lab,el]; pos=[]
        for _ in range(3):
            t,v=num(rng.uniform(-0.5,1.5),rng.integers(1,6),rng.random()<0.5); row.append(t); pos.append(v)
        k=kinds[i]; e={'label':lab,'atomtype':el.upper(),'pos':pos}
        if have_adp:
            tu,vu=num(rng.uniform(0.001,0.1),4,rng.random()<0.5); tb,vb=num(rng.uniform(0.1,8),3,rng.random()<0.5)
            row+=[k if k else '.',tu,tb]
            if k=='Uiso': e['adp_type']='Uiso'; e['adp']=vu
            elif k=='Biso': e['adp_type']='Uiso'; e['adp']=vb/(8*np.pi**2)
            elif k in('Uani','Bani'):
                vals=[num(rng.uniform(-0.05,0.1),4,rng.random()<0.5) for _ in range(6)]; aniso.append((lab,k,vals))
                e['adp_type']='Uani'; e['adp']=[v for t,v in vals] if k=='Uani' else [v/(8*np.pi**2) for t,v in vals]
            else: e['adp_type']='.'; 
        else: e['adp_type']=None; e['adp']=0.0
        if have_occ: t,v=num(rng.uniform(0.05,1),3,rng.random()<0.3); row.append(t); e['occ']=v
        else: e['occ']=1.0
        if mk: m=int(rng.integers(1,193)); row.append(str(m)); e['symmulti']=m
        atoms.append(e); L.append(' '.join(row))
    if aniso:
        hasU=any(a[1]=='Uani' for a in aniso); hasB=any(a[1]=='Bani' for a in aniso)
        L+=["loop_","_atom_site_aniso_label"]
        if hasU: L+=["_atom_site_aniso_U_%s"%ij for ij in ('11','22','33','23','13','12')]
        if hasB: L+=["_atom_site_aniso_B_%s"%ij for ij in ('11','22','33','23','13','12')]
        for lab,k,vals in aniso:
            u=' '.join(t for t,v in vals) if k=='Uani' else ' '.join(['.']*6)
            bb=' '.join(t for t,v in vals) if k=='Bani' else ' '.join(['.']*6)
            L.append(lab+(' '+u if hasU else '')+(' '+bb if hasB else ''))
    p=os.path.join(d,'t.cif'); open(p,'w').write('\n'.join(L)+'\n')
    try:
        b=structure.build_atomlist(); b.CIFread(p); al=b.atomlist
    except Exception as ex:
        cnt['exc '+type(ex).__name__]+=1
        if len(bad)<4: bad.append((repr(ex),'\n'.join(L)))
        continue
    ok= al.cell==cell and al.sgname==nm and al.dispersion==disp and len(al.atom)==nat
    for a,e in zip(al.atom,atoms):
        ok&= a.label==e['label'] and a.atomtype==e['atomtype'] and list(a.pos)==e['pos'] and a.occ==e['occ']
        if e['adp_type'] in ('Uiso','Uani'): ok&= a.adp_type==e['adp_type'] and np.allclose(a.adp,e['adp'],rtol=1e-15,atol=0)
        if 'symmulti' in e: ok&= a.symmulti==e['symmulti']
    cnt['ok' if ok else 'MISMATCH']+=1
    if not ok and len(bad)<4: bad.append(('mismatch',[(a.label,a.atomtype,a.pos,a.adp_type,a.adp,a.occ,a.symmulti) for a in al.atom],atoms,al.cell,cell,al.sgname,nm,al.dispersion,disp))
print(cnt)
for b in bad[:3]: print(b)
shutil.rmtree(d)
