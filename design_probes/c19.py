import os, tempfile, struct, math
from xfab import parameters as P
d=tempfile.mkdtemp(); f=os.path.join(d,'p.par')
vals={'a':1,'b':-2.5,'c':'hello','d':1e-300,'e':float('inf'),'f':float('nan'),'g':-0.0,'h':2**53+1,'i':10**30,'j':'','k':'1e5','l':'0x10','m':'1_000','n':5e-324,'o':0.1+0.2,'p-q':3,'r':'a-b','s':True,'t':'nan','u':'١٢'}
p=P.parameters(**{k:v for k,v in vals.items() if k.isidentifier()})
for k,v in vals.items():
    if not k.isidentifier(): p.set(k,v)
p.saveparameters(f); print(open(f).read())
q=P.read_par_file(f)
for k,v in sorted(q.get_parameters().items()): print(repr(k),repr(v),type(v).__name__)
