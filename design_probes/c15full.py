import numpy as np, itertools, sys, time
from fractions import Fraction as Fr
from multiprocessing import Pool
from xfab import structure, sg
rhomb=[146,148,155,160,161,166,167]
settings=[(n,'standard') for n in range(1,231)]+[(n,'rhombohedral') for n in rhomb]
grid=[Fr(0),Fr(1,8),Fr(1,6),Fr(1,4),Fr(1,3),Fr(3,8),Fr(1,2),Fr(5,8),Fr(2,3),Fr(3,4),Fr(5,6),Fr(7,8)]
pts=list(itertools.product(grid,repeat=3))
def exact_mult(ops,pos):
    return len({tuple((sum(R[i][j]*pos[j] for j in range(3))+t[i])%1 for i in range(3)) for R,t in ops})
def work(s):
    no,ch=s; g=sg.sg(sgno=no,cell_choice=ch)
    ops=[([[int(x) for x in r] for r in R],[Fr(int(round(x*24)),24) for x in t]) for R,t in zip(g.rot,g.trans)]
    bad=[]
    rng=np.random.default_rng(no)
    for pos in pts:
        e=exact_mult(ops,pos)
        sh=rng.integers(-3,4,3)
        m=structure.multiplicity([float(x)+int(k) for x,k in zip(pos,sh)],sgno=no,cell_choice=ch)
        if m!=e: bad.append((tuple(map(str,pos)),sh.tolist(),m,e))
    return s,len(bad),bad[:3]
if __name__=='__main__':
    t0=time.time()
    with Pool(16) as p: res=p.map(work,settings,chunksize=1)
    nb=[r for r in res if r[1]]
    print('settings with mismatches',len(nb),'time',time.time()-t0)
    for r in nb[:20]: print(r)
