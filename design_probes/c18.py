import numpy as np, itertools
from collections import Counter
from xfab import tools, laue
rng=np.random.default_rng(9)
def G_of(cell):
    a,b,c,al,be,ga=cell; ca,cb,cg=np.cos(np.radians([al,be,ga]))
    return np.array([[a*a,a*b*cg,a*c*cb],[a*b*cg,b*b,b*c*ca],[a*c*cb,b*c*ca,c*c]])
def cell_of(G):
    a,b,c=np.sqrt(np.diag(G)); return [a,b,c,np.degrees(np.arccos(G[1,2]/b/c)),np.degrees(np.arccos(G[0,2]/a/c)),np.degrees(np.arccos(G[0,1]/a/b))]
UNI=[np.array(m).reshape(3,3) for m in itertools.product([-1,0,1],repeat=9) if abs(round(np.linalg.det(np.array(m).reshape(3,3))))==1]
print(len(UNI))
def same_lattice(G1,G2):
    # find integer M det+-1 with M^T G1 M = G2 : search columns among short vectors of lattice1
    L=np.linalg.cholesky(G1).T  # G1 = L^T L
    vecs=np.array(list(itertools.product(range(-4,5),repeat=3)))
    n2=np.einsum('ij,jk,ik->i',vecs,G1,vecs)
    cols=[]
    for k in range(3):
        cols.append(vecs[np.abs(n2-G2[k,k])<1e-7*max(1,G2[k,k])])
    for c0 in cols[0]:
        for c1 in cols[1]:
            if abs(c0@G1@c1-G2[0,1])>1e-7*np.sqrt(G2[0,0]*G2[1,1]): continue
            for c2 in cols[2]:
                M=np.array([c0,c1,c2]).T
                if abs(abs(round(np.linalg.det(M)))-1)<1e-9 and np.allclose(M.T@G1@M,G2,rtol=0,atol=1e-7*np.max(G2)): return M
    return None
cnt=Counter()
for it in range(300):
    # reduced-ish cell
    a,b,c=np.sort(rng.uniform(3,6,3)); al,be,ga=rng.uniform(75,105,3)
    cell=[a,b,c,al,be,ga]
    G=G_of(cell)
    if rng.random()<0.5:
        M=UNI[rng.integers(len(UNI))]; G=M.T@G@M; cell=cell_of(G); kind='transformed'
    else: kind='direct'
    for m in (tools,):
        try:
            r=m.reduce_cell(cell)
        except Exception as e:
            cnt[(kind,'exc',type(e).__name__)]+=1; continue
        if np.any(np.isnan(r)): cnt[(kind,'nan')]+=1; continue
        Gr=G_of(r)
        volok=abs(np.sqrt(np.linalg.det(Gr))/np.sqrt(np.linalg.det(G))-1)<1e-8
        M=same_lattice(G,Gr)
        cnt[(kind,'vol' if volok else 'VOLBAD','lat' if M is not None else 'LATBAD')]+=1
        if not volok and cnt[(kind,'VOLBAD','LATBAD')]<3: print(cell,r)
print(cnt)
