import numpy as np
from collections import Counter
from xfab import tools, laue
rng=np.random.default_rng(5)
Ry=lambda t:np.array([[np.cos(t),0,np.sin(t)],[0,1,0],[-np.sin(t),0,np.cos(t)]])
Rz=lambda t:np.array([[np.cos(t),-np.sin(t),0],[np.sin(t),np.cos(t),0],[0,0,1]])
w={}; cnt=Counter()
def upd(k,v): w[k]=max(w.get(k,0),v)
def nsol(build,g,th):
    M0,M1,M2=(build(x)@g for x in (0,np.pi/2,np.pi))
    C=(M0[0]+M2[0])/2; A=M0[0]-C; B=M1[0]-C
    rhs=-np.sin(th)**2-C; amp=np.hypot(A,B)
    return (2 if abs(rhs)<amp else 0), abs(abs(rhs)/amp-1) if amp>0 else 0
for it in range(30000):
    tth=np.radians(rng.uniform(0.5,150)); th=tth/2
    d=rng.standard_normal(3); d/=np.linalg.norm(d)
    if rng.random()<0.2: d=np.array([0,0,1.])*rng.choice([-1,1])+rng.standard_normal(3)*10**rng.uniform(-8,-1); d/=np.linalg.norm(d)
    g=np.sin(th)*d
    chi,wedge=rng.uniform(-0.5,0.5,2)
    if rng.random()<0.2: chi=0
    if rng.random()<0.2: wedge=0
    for m in (tools,laue):
        sc=1 if m is tools else rng.uniform(0.1,10)
        for name,call,build in (('general',lambda: m.find_omega_general(g*sc,tth,chi,wedge),lambda o:m.form_omega_mat_general(o,chi,wedge)),
                                ('quart',lambda: m.find_omega_quart(g*sc,tth,chi,wedge),lambda o:m.quart_to_omega(np.degrees(o),chi,wedge)),
                                ('wedge',lambda: m.find_omega_wedge(g*sc,tth,wedge),lambda o:Ry(-wedge)@Rz(o)),
                                ('plain',lambda: (m.find_omega(g*sc,tth),None),lambda o:Rz(o))):
            om,eta=call()
            n,margin=nsol(build,g,th)
            if margin<1e-6: cnt[(name,'tangent')]+=1; continue
            if len(om)!=n: cnt[(m.__name__,name,'count',len(om),n)]+=1; continue
            cnt[(name,n)]+=1
            for i in range(len(om)):
                gt=build(om[i])@g
                upd(name+' x',abs(gt[0]+np.sin(th)**2))
                if not (-np.pi<om[i]<=np.pi): cnt[(name,'range')]+=1
                if eta is not None:
                    upd(name+' y',abs(gt[1]+np.sin(tth)*np.sin(eta[i])/2)); upd(name+' z',abs(gt[2]-np.sin(tth)*np.cos(eta[i])/2))
print(w); 
for k,v in sorted(cnt.items(),key=str): print(k,v)
