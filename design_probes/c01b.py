import numpy as np
from xfab import tools, laue
rng=np.random.default_rng(101)
def gen():
    while True:
        al,be=rng.uniform(1,179,2) if rng.random()<0.5 else rng.choice([rng.uniform(1,15),rng.uniform(165,179)],2)
        sa,sb=np.sin(np.radians([al,be])); ca,cb=np.cos(np.radians([al,be]))
        if sa*sb>np.sqrt(0.02)+1e-3: break
    u=rng.choice([-1,1])*(1-10**rng.uniform(-6,0)) if rng.random()<0.5 else rng.uniform(-1,1)
    cg=ca*cb+u*np.sqrt(sa*sa*sb*sb-0.02)
    ga=np.degrees(np.arccos(cg))
    a,b,c=np.exp(rng.uniform(np.log(0.5),np.log(500),3))
    return [a,b,c,al,be,ga]
w={}
def upd(k,v): w[k]=max(w.get(k,0),v)
ming=1
for it in range(40000):
    cell=gen(); a,b,c,al,be,ga=cell; ca,cb,cg=np.cos(np.radians([al,be,ga]))
    gram=1-ca*ca-cb*cb-cg*cg+2*ca*cb*cg; ming=min(ming,gram)
    G=np.array([[a*a,a*b*cg,a*c*cb],[a*b*cg,b*b,b*c*ca],[a*c*cb,b*c*ca,c*c]])
    D=np.diag([1/a,1/b,1/c]); Gn=D@G@D; Gs=D@np.linalg.inv(Gn)@D; V=a*b*c*np.sqrt(np.linalg.det(Gn))
    for m,f in ((tools,2*np.pi),(laue,1.0)):
        A=m.form_a_mat(cell); B=m.form_b_mat(cell)
        upd('AtA',np.max(np.abs(D@(A.T@A-G)@D)))
        Ds=np.diag(1/np.sqrt(np.diag(Gs))); upd('BtB',np.max(np.abs(Ds@(B.T@B/f**2-Gs)@Ds)))
        upd('vol',abs(np.linalg.det(A)/V-1)); upd('cellvol',abs(m.cell_volume(cell)/V-1))
        upd('a2c',np.max(np.abs(np.array(m.a_to_cell(A))/cell-1))); upd('b2c',np.max(np.abs(np.array(m.b_to_cell(B))/cell-1)))
        upd('inv2',np.max(np.abs(np.array(m.cell_invert(m.cell_invert(cell)))/cell-1)))
        upd('ainv',np.max(np.abs(m.form_a_mat_inv(cell)@A-np.eye(3))))
        h=rng.integers(-30,31,3)
        if np.any(h): upd('stl',abs(m.sintl(cell,h)/(0.5*np.sqrt(h@Gs@h))-1)); upd('stlB',abs(m.sintl(cell,h)/(np.linalg.norm(B@h)/(2*f))-1))
print('min gram',ming); print(w)
