import os, sys, time
import numpy as np, hypothesis
from hypothesis import settings, strategies as st, HealthCheck
from hypothesis.stateful import RuleBasedStateMachine, rule, invariant, run_state_machine_as_test
import xfab
from xfab import tools, laue, symmetry
SEED=int(os.environ.get('VERIF_SEED','0'))
def quatU(q):
    q=np.array(q)/np.linalg.norm(q); w,x,y,z=q
    return np.array([[1-2*(y*y+z*z),2*(x*y-z*w),2*(x*z+y*w)],[2*(x*y+z*w),1-2*(x*x+z*z),2*(y*z-x*w)],[2*(x*z-y*w),2*(y*z+x*w),1-2*(x*x+y*y)]])
quat=st.tuples(*[st.floats(-1,1)]*4).filter(lambda q:sum(x*x for x in q)>1e-2)
noise9=lambda lo,hi: st.lists(st.floats(-1,1),min_size=9,max_size=9).map(lambda v:np.array(v).reshape(3,3)*hi)
@st.composite
def validU(draw):
    U=quatU(draw(quat)); k=draw(st.sampled_from(['exact','f32','noise']))
    if k=='f32': U=U.astype(np.float32).astype(float)
    if k=='noise': U=U+draw(noise9(0,1e-7))
    return U
@st.composite
def invalidU(draw):
    U=quatU(draw(quat)); k=draw(st.sampled_from(['noise','improper','scaled']))
    if k=='improper': return U@np.diag([1,1,-1.])
    if k=='scaled': return U*(1+draw(st.floats(1e-3,1))*draw(st.sampled_from([-1,1]))*0.5)
    i,j=draw(st.integers(0,2)),draw(st.integers(0,2)); e=draw(st.floats(3e-3,1))*draw(st.sampled_from([-1,1]))
    V=U.copy(); V[i,j]+=e
    hypothesis.assume(np.max(np.abs(V.T@V-np.eye(3)))>1e-3)
    return V
CELL=[3.,4.,5.,80.,95.,100.]
class M(RuleBasedStateMachine):
    def __init__(self):
        super().__init__(); xfab.CHECKS.activated=True; self.state=True
    def teardown(self): xfab.CHECKS.activated=True
    @rule(v=st.sampled_from([True,False]))
    def assign(self,v): xfab.CHECKS.activated=v; self.state=v
    @rule(v=st.sampled_from([0,1,None,'True',np.True_,2.0]))
    def assign_bad(self,v):
        try: xfab.CHECKS.activated=v; raise RuntimeError('accepted %r'%v)
        except ValueError: pass
    @rule(U=validU(),m=st.sampled_from([tools,laue]),f=st.sampled_from(['u_to_euler','u_to_rod','u_to_ubi','umis','ubi_to_u','ubi_to_u_and_eps']))
    def valid(self,U,m,f):
        def call():
            if f=='u_to_ubi': return m.u_to_ubi(U,CELL)
            if f=='umis': return symmetry.Umis(U,U,7)
            if f in('ubi_to_u','ubi_to_u_and_eps'):
                xfab.CHECKS.activated=False; ubi=m.u_to_ubi(U,CELL); xfab.CHECKS.activated=self.state
                return m.ubi_to_u(ubi) if f=='ubi_to_u' else m.ubi_to_u_and_eps(ubi,CELL)[0]
            return getattr(m,f)(U)
        hypothesis.assume(f!="u_to_rod" or np.trace(U)+1>1e-3)
        r=call()   # must not raise
        xfab.CHECKS.activated=not self.state
        try: r2=call()
        finally: xfab.CHECKS.activated=self.state
        assert np.array_equal(np.asarray(r),np.asarray(r2))
    @rule(U=invalidU(),m=st.sampled_from([tools,laue]),f=st.sampled_from(['u_to_euler','u_to_rod','u_to_ubi','umis']))
    def invalid(self,U,m,f):
        def call():
            if f=='u_to_ubi': return m.u_to_ubi(U,CELL)
            if f=='umis': return symmetry.Umis(U,np.eye(3),7)
            return getattr(m,f)(U)
        if self.state:
            try: call(); raise RuntimeError('accepted invalid')
            except ValueError: pass
        else:
            try: call()
            except ValueError as e:
                assert 'orientation matrix' not in str(e)
    @rule(a=st.tuples(*[st.floats(0,2*np.pi)]*3),bad=st.one_of(st.none(),st.tuples(st.integers(0,2),st.one_of(st.floats(-10,-1e-3),st.floats(2*np.pi+1e-3,20)))),m=st.sampled_from([tools,laue]))
    def euler(self,a,bad,m):
        a=list(a)
        if bad: a[bad[0]]=bad[1]
        if bad and self.state:
            try: m.euler_to_u(*a); raise RuntimeError('accepted bad euler')
            except ValueError: pass
        else: m.euler_to_u(*a)
    @invariant()
    def readback(self): assert xfab.CHECKS.activated is self.state
t0=time.time()
run_state_machine_as_test(hypothesis.seed(SEED)(M),settings=settings(max_examples=int(sys.argv[1]),stateful_step_count=30,deadline=None,database=None,suppress_health_check=list(HealthCheck)))
print('ok',time.time()-t0)
