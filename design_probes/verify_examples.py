import numpy as np
from xfab import tools, laue, structure, sg, symmetry, detector, checks
from xfab.sg import sgdic
print('sgdic keys',len(sgdic))
# D1
tth=np.radians(20); th=tth/2; d=np.array([0.3,0.5,0.2]); d/=np.linalg.norm(d); g=np.sin(th)*d
om,eta=tools.find_omega_general(g,tth,0.3,0.2)
for o in om: print('D1 x-comp',(tools.form_omega_mat_general(o,0.3,0.2)@g)[0],'expected',-np.sin(th)**2)
# D2
a=[structure.atom_entry(label='a',atomtype='C',pos=np.array([0.1,0.2,0.3]),adp_type='Uani',adp=[0.02,0.03,0.04,0.005,0.004,0.01],occ=1,symmulti=4)]
cell=[5,5,7,90,90,90]; g4=sg.sg(sgname='P4'); h=np.array([1,2,3]); R=g4.rot[1]; print('R',R.tolist())
F1=complex(*structure.StructureFactor(h,cell,'P4',a)); F2=complex(*structure.StructureFactor(h@R,cell,'P4',a)); print('D2',abs(F1),abs(F2))
# D4
print('D4a',structure.multiplicity([1/3,1/3,3/4],sgname='P3'),'D4b',structure.multiplicity([1/3,2/3,0],sgname='P4212'), structure.multiplicity([3/8,1/3,2/3],sgname='Fm-3m'))
# D5a
H=tools.genhkl_all([6.5]*3+[90]*3,0,0.36,sgname='Pm-3n'); S=set(map(tuple,H.astype(int).tolist())); print('D5a (3,2,2) in',(3,2,2) in S)
H=tools.genhkl_all([6,6,7,90,90,120],0,0.3,sgname='P63cm'); S=set(map(tuple,H.astype(int).tolist())); print('D5b P63cm (0,-1,1) in',(0,-1,1) in S, '(1,0,1)',(1,0,1) in S)
H=tools.genhkl_all([6,6,7,90,90,120],0,0.3,sgname='P63mc'); S=set(map(tuple,H.astype(int).tolist())); print('D5b P63mc (1,0,1) in',(1,0,1) in S,'(1,1,1) in',(1,1,1) in S)
H=tools.genhkl_all([6]*3+[90]*3,0,0.3,sgname='I432'); S=set(map(tuple,H.astype(int).tolist())); print('D5c I432 (1,1,0) in',(1,1,0) in S)
# D6
c=detector.xy_to_detyz([0,0],0,-1,-1,0,2,1); print('D6',c,detector.detyz_to_xy(c,0,-1,-1,0,2,1))
# K1
cellm=[6.692,5.302,8.983,90,118.85,90]
H=tools.genhkl_all(cellm,0.13,0.387,sgname='P21'); S=set(map(tuple,H.astype(int).tolist()));
for hh in [(-2,2,6),(-2,-2,6),(2,2,-6)]: print('K1',hh,hh in S, laue.sintl(cellm,hh))
# K2
ubi=tools.u_to_ubi(np.eye(3),[1,1,1,90,90,90]); print('K2',tools.ubi_to_u_and_eps(ubi,[1,1,1,90,90,90])[1], 2*np.pi-1)
# K3
print('K3',tools.reduce_cell([4,4,6,90,90,120]))
# D3
print('D3',tools.u_to_euler(tools.euler_to_u(0.5914,2.0486e-8,2.7214)))
