import numpy as np
from collections import Counter
from xfab import tools, sg
rng=np.random.default_rng(5)
cnt=Counter()
for it in range(40):
    for no in [146,148,155,160,161,166,167]:
        ar=rng.uniform(4,8); al=rng.uniform(50,110)
        ca=np.cos(np.radians(al))
        ah=2*ar*np.sin(np.radians(al)/2); ch=ar*np.sqrt(3*(1+2*ca))
        smax=rng.uniform(0.2,0.4)
        Hr=tools.genhkl_all([ar,ar,ar,al,al,al],0,smax,sgno=no,cell_choice='rhombohedral',output_stl=True)
        Hh=tools.genhkl_all([ah,ah,ch,90,90,120],0,smax,sgno=no,output_stl=True)
        r=np.round(Hr[:,:3]).astype(int)
        obv=set(map(tuple,np.stack([r[:,0]-r[:,1],r[:,1]-r[:,2],r.sum(1)],1).tolist()))
        rev=set(map(tuple,np.stack([r[:,1]-r[:,0],r[:,2]-r[:,1],r.sum(1)],1).tolist()))
        hs=set(map(tuple,np.round(Hh[:,:3]).astype(int).tolist()))
        cnt[(no,'obv' if obv==hs else ('obv-subset' if obv<hs else 'obv-BAD'),'rev' if rev==hs else 'rev-no')]+=1
for k,v in sorted(cnt.items()): print(k,v)
