import numpy as np, itertools
from fractions import Fraction as Fr
from collections import defaultdict
from xfab import structure, sg
rhomb=[146,148,155,160,161,166,167]
settings=[(n,'standard') for n in range(1,231)]+[(n,'rhombohedral') for n in rhomb]
grid=[Fr(0),Fr(1,8),Fr(1,6),Fr(1,4),Fr(1,3),Fr(3,8),Fr(1,2),Fr(5,8),Fr(2,3),Fr(3,4),Fr(5,6),Fr(7,8)]
def exact_mult(g,pos):
    imgs=set()
    for R,t in zip(g.rot,g.trans):
        tt=[Fr(int(round(x*24)),24) for x in t]
        p=tuple((sum(int(R[i][j])*pos[j] for j in range(3))+tt[i])%1 for i in range(3))
        imgs.add(p)
    return len(imgs)
bad=defaultdict(list); tot=0
import random; random.seed(0)
pts=list(itertools.product(grid,repeat=3))
for no,ch in settings:
    g=sg.sg(sgno=no,cell_choice=ch)
    for pos in random.sample(pts,60)+[(Fr(1,3),Fr(2,3),Fr(1,4)),(Fr(0),Fr(0),Fr(0)),(Fr(1,3),Fr(2,3),Fr(0))]:
        e=exact_mult(g,pos); tot+=1
        m=structure.multiplicity([float(x) for x in pos],sgno=no,cell_choice=ch)
        if m!=e: bad[(no,ch,g.name)].append((tuple(str(x) for x in pos),m,e))
print(tot,len(bad))
for k,v in list(bad.items()): print(k,len(v),v[:2])
