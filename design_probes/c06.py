import numpy as np, sys, itertools, time
from collections import defaultdict
import c05
from c05 import settings, conf_cell
from xfab import sg, tools, laue
fails=defaultdict(list)
for seed in range(4):
    rng=np.random.default_rng(200+seed)
    for no,ch in settings:
        g=sg.sg(sgno=no,cell_choice=ch)
        cell=conf_cell(g,rng)
        smax=rng.uniform(0.3,0.5); smin=rng.choice([0,rng.uniform(0,0.2)])
        U=tools.genhkl_unique(cell,smin,smax,sgno=no,cell_choice=ch,output_stl=True)
        A=tools.genhkl_all(cell,smin,smax,sgno=no,cell_choice=ch,output_stl=True)
        PG=np.concatenate([g.rot[:g.nuniq],-g.rot[:g.nuniq]])
        Ui=np.round(U[:,:3]).astype(int)
        if not np.all(Ui==U[:,:3]): fails[(no,ch)].append('nonint')
        orbits=[frozenset(map(tuple,(h@PG).tolist())) for h in Ui]
        if len(set(orbits))!=len(orbits): fails[(no,ch)].append(('dup families',len(orbits)-len(set(orbits))))
        un=set().union(*orbits) if orbits else set()
        As=set(map(tuple,np.round(A[:,:3]).astype(int).tolist()))
        if un!=As or len(As)!=len(A): fails[(no,ch)].append(('union mismatch',len(un),len(As),len(A)))
        B=laue.form_b_mat(cell)
        for M in (U,A):
            s=np.linalg.norm(M[:,:3]@B.T,axis=1)/2
            if len(M) and np.max(np.abs(s-M[:,3]))>1e-12: fails[(no,ch)].append(('stl col',np.max(np.abs(s-M[:,3]))))
            if np.any(np.diff(M[:,3])<0): fails[(no,ch)].append('unsorted')
            if np.any(M[:,3]<=smin) or np.any(M[:,3]>smax): fails[(no,ch)].append('shell')
for k,v in fails.items(): print(k,v[:3])
print(len(fails))
