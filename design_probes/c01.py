import numpy as np
from xfab import tools, laue
rng=np.random.default_rng(1)
def gen():
    while True:
        a,b,c=np.exp(rng.uniform(np.log(0.5),np.log(200),3))
        al,be,ga=rng.uniform(1,179,3)
        ca,cb,cg=np.cos(np.radians([al,be,ga]))
        if 1-ca*ca-cb*cb-cg*cg+2*ca*cb*cg>=0.02: return [a,b,c,al,be,ga]
worst={}
def upd(k,v): worst[k]=max(worst.get(k,0),v)
for it in range(20000):
    cell=gen(); a,b,c,al,be,ga=cell; ca,cb,cg=np.cos(np.radians([al,be,ga]))
    G=np.array([[a*a,a*b*cg,a*c*cb],[a*b*cg,b*b,b*c*ca],[a*c*cb,b*c*ca,c*c]])
    Gs=np.linalg.inv(G); V=np.sqrt(np.linalg.det(G))
    for m,f in ((tools,2*np.pi),(laue,1.0)):
        A=m.form_a_mat(cell); B=m.form_b_mat(cell)
        upd(m.__name__+' AtA',np.max(np.abs(A.T@A-G)/np.max(np.abs(G))))
        upd(m.__name__+' BtB',np.max(np.abs(B.T@B/f**2-Gs)/np.max(np.abs(Gs))))
        upd(m.__name__+' tri',max(abs(A[1,0]),abs(A[2,0]),abs(A[2,1]),abs(B[1,0]),abs(B[2,0]),abs(B[2,1])))
        assert min(np.diag(A))>0 and min(np.diag(B))>0
        upd(m.__name__+' vol',abs(np.linalg.det(A)/V-1)); upd(m.__name__+' cellvol',abs(m.cell_volume(cell)/V-1))
        upd(m.__name__+' a2c',np.max(np.abs(np.array(m.a_to_cell(A))/cell-1)))
        upd(m.__name__+' b2c',np.max(np.abs(np.array(m.b_to_cell(B))/cell-1)))
        upd(m.__name__+' inv2',np.max(np.abs(np.array(m.cell_invert(m.cell_invert(cell)))/cell-1)))
        upd(m.__name__+' ainv',np.max(np.abs(m.form_a_mat_inv(cell)@A-np.eye(3))))
        h=rng.integers(-12,13,3)
        if np.any(h): 
            s=m.sintl(cell,h); upd(m.__name__+' stl',abs(s/(np.linalg.norm(B@h)/(2*f))-1)); upd(m.__name__+' stl2',abs(s/(0.5*np.sqrt(h@Gs@h))-1))
        # reciprocal cell vs Gs
        cs=m.cell_invert(cell); upd(m.__name__+' recip',max(abs(cs[0]/np.sqrt(Gs[0,0])-1),abs(np.cos(np.radians(cs[3]))-Gs[1,2]/np.sqrt(Gs[1,1]*Gs[2,2]))))
for k,v in worst.items(): print(k,v)
