import numpy as np, itertools
from xfab import sg
rhomb=[146,148,155,160,161,166,167]
settings=[(n,'standard') for n in range(1,231)]+[(n,'rhombohedral') for n in rhomb]
def close(gens):
    G={tuple(np.eye(3,dtype=int).ravel())}
    frontier=list(G)
    gens=[np.array(g) for g in gens]
    while frontier:
        new=[]
        for a in frontier:
            A=np.array(a).reshape(3,3)
            for g in gens:
                k=tuple((A@g).ravel())
                if k not in G: G.add(k); new.append(k)
        frontier=new
    return G
inv=-np.eye(3,dtype=int)
# cartesian-like axes generators (columns convention x'=Rx)
twoy=[[-1,0,0],[0,1,0],[0,0,-1]]; twoz=[[-1,0,0],[0,-1,0],[0,0,1]]; twox=[[1,0,0],[0,-1,0],[0,0,-1]]
fourz=[[0,-1,0],[1,0,0],[0,0,1]]; three111=[[0,0,1],[1,0,0],[0,1,0]]; two110=[[0,1,0],[1,0,0],[0,0,-1]]
# hexagonal axes
threez=[[0,-1,0],[1,-1,0],[0,0,1]]; sixz=[[1,-1,0],[1,0,0],[0,0,1]]
two_100_hex=[[1,-1,0],[0,-1,0],[0,0,-1]]   # 2-fold along a (x-y,-y,-z)
two_1m10_hex=[[0,-1,0],[-1,0,0],[0,0,-1]]  # 2-fold along [1-10] (-y,-x,-z)
# rhombohedral axes: 3 along [111], 2-fold along [1-10]: (-y,-x,-z)
two_rh=[[0,-1,0],[-1,0,0],[0,0,-1]]
REF={('-1',0):close([inv]),('2/m',0):close([twoy,inv]),('mmm',0):close([twoz,twox,inv]),('4/m',0):close([fourz,inv]),('4/mmm',0):close([fourz,twox,inv]),
 ('-3',0):close([threez,inv]),('-3m1',0):close([threez,two_100_hex,inv]),('-31m',0):close([threez,two_1m10_hex,inv]),('6/m',0):close([sixz,inv]),('6/mmm',0):close([sixz,two_100_hex,inv]),
 ('m-3',0):close([twoz,twox,three111,inv]),('m-3m',0):close([fourz,three111,two110,inv]),('-3',1):close([three111,inv]),('-3m',1):close([three111,two_rh,inv])}
print({k:len(v) for k,v in REF.items()})
bad=[]
for no,ch in settings:
    g=sg.sg(sgno=no,cell_choice=ch)
    L={tuple(R.astype(int).ravel()) for R in g.rot}|{tuple((-R).astype(int).ravel()) for R in g.rot}
    if L!=REF[(g.Laue,int(g.cell_choice=='rhombohedral'))]: bad.append((no,ch,g.Laue))
print(bad)
