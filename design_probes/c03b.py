import numpy as np
from xfab import tools, laue
rng=np.random.default_rng(4)
Rx=lambda t:np.array([[1,0,0],[0,np.cos(t),-np.sin(t)],[0,np.sin(t),np.cos(t)]])
Ry=lambda t:np.array([[np.cos(t),0,np.sin(t)],[0,1,0],[-np.sin(t),0,np.cos(t)]])
Rz=lambda t:np.array([[np.cos(t),-np.sin(t),0],[np.sin(t),np.cos(t),0],[0,0,1]])
def active(axis,ang):
    n=axis/np.linalg.norm(axis); K=np.array([[0,-n[2],n[1]],[n[2],0,-n[0]],[-n[1],n[0],0]])
    return np.eye(3)+np.sin(ang)*K+(1-np.cos(ang))*K@K
w={}
def upd(k,v): w[k]=max(w.get(k,0),v)
import xfab; xfab.CHECKS.activated=False
for it in range(20000):
    for m in (tools,laue):
        a,b,c=rng.uniform(-50,50,3)
        upd('euler',np.max(np.abs(m.euler_to_u(a,b,c)-Rz(a)@Rx(b)@Rz(c))))
        upd('omg',np.max(np.abs(m.form_omega_mat_general(a,b,c)-Rx(b)@Ry(c)@Rz(a))))
        upd('om',np.max(np.abs(m.form_omega_mat(a)-Rz(a))))
        upd('tilt',np.max(np.abs(m.detect_tilt(a,b,c)-Rx(a)@Ry(b)@Rz(c))))
        P=Rx(b)@Ry(c); upd('quart',np.max(np.abs(m.quart_to_omega(np.degrees(a),b,c)-P@Rz(a)@P.T)))
        r=rng.standard_normal(3)*10**rng.uniform(-6,3); nr=np.linalg.norm(r)
        U=m.rod_to_u(r); upd('rod',np.max(np.abs(U-active(r,2*np.arctan(nr)).T)))
        upd('rod orth',np.max(np.abs(U.T@U-np.eye(3))))
        if nr<1e3:
            r2=m.u_to_rod(U); upd('rod rt rel',np.max(np.abs(r2-r))/max(nr,1e-300)/max(1,nr**2))
            upd('rod rebuild',np.max(np.abs(m.rod_to_u(r2)-U)))
print(w)
