import os, sys, time, warnings
import numpy as np, hypothesis
from hypothesis import given, settings, strategies as st, HealthCheck, seed
from xfab import tools, laue
pass
SEED=int(os.environ.get('VERIF_SEED','0'))
Ry=lambda t:np.array([[np.cos(t),0,np.sin(t)],[0,1,0],[-np.sin(t),0,np.cos(t)]])
Rz=lambda t:np.array([[np.cos(t),-np.sin(t),0],[np.sin(t),np.cos(t),0],[0,0,1]])
unit=st.tuples(*[st.floats(-1,1)]*3).filter(lambda v:sum(x*x for x in v)>1e-4)
tilt=st.one_of(st.just(0.0),st.floats(-0.5,0.5))
stats={'n':0,'two':0,'zero':0,'tangent':0,'both_tilts':0}
@seed(SEED)
@settings(max_examples=int(sys.argv[1]),deadline=None,database=None,suppress_health_check=list(HealthCheck))
@given(d=unit,tthd=st.floats(0.5,150),chi=tilt,wedge=tilt,scale=st.floats(0.1,10),near_axis=st.one_of(st.none(),st.floats(-8,-1)))
def test(d,tthd,chi,wedge,scale,near_axis):
    d=np.array(d)+0.0
    if near_axis is not None: d=np.array([0,0,1.])+d*10**near_axis
    d/=np.linalg.norm(d); tth=np.radians(tthd); th=tth/2; g=np.sin(th)*d
    stats['n']+=1; stats['both_tilts']+= (chi!=0 and wedge!=0)
    for m in (tools,laue):
        gg=g if m is tools else g*scale
        for name,call,build in (('general',lambda: m.find_omega_general(gg,tth,chi,wedge),lambda o:m.form_omega_mat_general(o,chi,wedge)),
                                ('quart',lambda: m.find_omega_quart(gg,tth,chi,wedge),lambda o:m.quart_to_omega(np.degrees(o),chi,wedge)),
                                ('wedge',lambda: m.find_omega_wedge(gg,tth,wedge),lambda o:Ry(-wedge)@Rz(o)),
                                ('plain',lambda: (m.find_omega(gg,tth),None),lambda o:Rz(o))):
            with warnings.catch_warnings():
                warnings.simplefilter('ignore')
                om,eta=call()
            M0,M1,M2=(build(x)@g for x in (0,np.pi/2,np.pi)); C=(M0[0]+M2[0])/2; A=M0[0]-C; B=M1[0]-C
            rhs=-np.sin(th)**2-C; amp=np.hypot(A,B)
            tangent = abs(abs(rhs)-amp)<=1e-6*amp or amp<1e-12
            if tangent: stats['tangent']+=1
            else:
                n=2 if abs(rhs)<amp else 0
                assert len(om)==n,(name,m.__name__,len(om),n,rhs,amp)
                stats['two' if n else 'zero']+=1
            for i in range(len(om)):
                gt=build(om[i])@g
                assert abs(gt[0]+np.sin(th)**2)<1e-9,(name,gt[0]+np.sin(th)**2)
                assert -np.pi<om[i]<=np.pi,(name,om[i])
                if eta is not None:
                    assert abs(gt[1]+np.sin(tth)*np.sin(eta[i])/2)<1e-9 and abs(gt[2]-np.sin(tth)*np.cos(eta[i])/2)<1e-9,(name,'eta')
t0=time.time(); test(); print('ok',stats,time.time()-t0)
