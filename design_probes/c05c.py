import numpy as np, sys, itertools, time
from collections import defaultdict
from c05 import oracle, settings
from xfab import sg, tools
def conf_cell_orth(g,rng):
    a,b,c=rng.uniform(3,9,3)
    cs=g.crystal_system
    if g.cell_choice=='rhombohedral': return [a,a,a,90,90,90]
    if cs in ('triclinic','monoclinic','orthorhombic'): return [a,b,c,90,90,90]
    if cs=='tetragonal': return [a,a,c,90,90,90]
    if cs in('trigonal','hexagonal'): return [a,a,c,90,90,120]
    if cs=='cubic': return [a,a,a,90,90,90]
fails=defaultdict(list)
for seed in range(6):
    rng=np.random.default_rng(100+seed)
    for no,ch in settings:
        g=sg.sg(sgno=no,cell_choice=ch)
        cell=conf_cell_orth(g,rng)
        smax=rng.uniform(0.3,0.5); smin=rng.choice([0,rng.uniform(0,0.2)])
        Ho,so,_=oracle(g,cell,smin,smax)
        got=tools.genhkl_all(cell,smin,smax,sgno=no,cell_choice=ch,output_stl=True)
        gs=set(map(tuple,np.round(got[:,:3]).astype(int).tolist())); os_=set(map(tuple,Ho.tolist()))
        if gs!=os_ or len(gs)!=len(got):
            fails[(no,ch,g.name)].append((len(os_-gs),len(gs-os_),len(got)-len(gs),sorted(os_-gs,key=lambda h:sum(x*x for x in h))[:2],sorted(gs-os_,key=lambda h:sum(x*x for x in h))[:2]))
for k,v in fails.items(): print(k,len(v),v[0])
print(len(fails))
