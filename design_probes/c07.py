import numpy as np, sys
from collections import defaultdict
from xfab import structure, sg, tools, atomlib
from c05 import conf_cell
rng=np.random.default_rng(11)
els=['C','O','FE','SI','N','H','CU']
def mk_atoms(g,kind,n=3):
    atoms=[]
    for i in range(n):
        pos=rng.uniform(0,1,3)
        if kind=='Uiso': adp=rng.uniform(0.005,0.08)
        elif kind=='Uani':
            M=rng.standard_normal((3,3))*0.1; S=M@M.T+0.01*np.eye(3); adp=[S[0,0],S[1,1],S[2,2],S[1,2],S[0,2],S[0,1]]
        else: adp=None
        atoms.append(structure.atom_entry(label='a%d'%i,atomtype=els[rng.integers(len(els))],pos=pos,adp_type=kind,adp=adp,occ=rng.uniform(0.1,1),symmulti=g.nsymop))
    return atoms
res=defaultdict(lambda:[0,0.0])
for no in range(1,231):
    g=sg.sg(sgno=no); name=g.name
    for kind in ('Uiso','Uani',None):
        cell=conf_cell(g,rng); atoms=mk_atoms(g,kind)
        scale=sum(a.occ*g.nsymop*structure.FormFactor(a.atomtype,0) for a in atoms)
        worst=0
        for t in range(6):
            h=rng.integers(-8,9,3)
            F=complex(*structure.StructureFactor(h,cell,name,atoms))
            j=rng.integers(g.nsymop); R=g.rot[j]; tr=g.trans[j]
            F2=complex(*structure.StructureFactor(h@R,cell,name,atoms))
            worst=max(worst,abs(F2-F*np.exp(-2j*np.pi*(h@tr)))/scale)
            Fm=complex(*structure.StructureFactor(-h,cell,name,atoms)); worst=max(worst,abs(Fm-F.conjugate())/scale)
        key=(kind,g.crystal_system,'sym' if all(np.array_equal(r,r.T) for r in g.rot) else 'nonsym')
        res[key][0]+=1; res[key][1]=max(res[key][1],worst)
for k,v in sorted(res.items(),key=str): print(k,v)
