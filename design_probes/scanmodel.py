import numpy as np, sys, itertools
from collections import defaultdict, Counter
from xfab import sg, tools, laue
SEG={('-1',False):[[[0,0,0],[1,0,0],[0,1,0],[0,0,1]],[[-1,0,1],[-1,0,0],[0,1,0],[0,0,1]],[[-1,1,0],[-1,0,0],[0,1,0],[0,0,-1]],[[0,1,-1],[1,0,0],[0,1,0],[0,0,-1]]],
 ('2/m',False):[[[0,0,0],[1,0,0],[0,1,0],[0,0,1]],[[-1,0,1],[-1,0,0],[0,1,0],[0,0,1]]],
 ('-3m',True):[[[0,0,0],[1,0,0],[1,0,-1],[1,1,1]],[[1,1,0],[1,0,-1],[0,0,-1],[1,1,1]]],
 ('-3',True):[[[0,0,0],[1,0,0],[1,0,-1],[1,1,1]],[[1,1,0],[1,0,-1],[0,0,-1],[1,1,1]],[[0,-1,-2],[1,0,0],[1,0,-1],[-1,-1,-1]],[[1,0,-2],[1,0,-1],[0,0,-1],[-1,-1,-1]]]}
def metric_stl(cell):
    a,b,c,al,be,ga=cell; ca,cb,cg=np.cos(np.radians([al,be,ga]))
    G=np.array([[a*a,a*b*cg,a*c*cb],[a*b*cg,b*b,b*c*ca],[a*c*cb,b*c*ca,c*c]])
    Gs=np.linalg.inv(G)
    return lambda h: 0.5*np.sqrt(np.asarray(h,float)@Gs@np.asarray(h,float))
def scan(cell,segs,M):
    stl=metric_stl(cell); V=[]
    for o,v1,v2,v3 in np.array(segs):
        k=0
        while True:
            pk=o+k*v3
            if k>0 and stl(pk)>M: break
            j=0
            while True:
                pj=pk+j*v2
                if j>0 and stl(pj)>M: break
                i=0
                while True:
                    p=pj+i*v1
                    if i>0 and stl(p)>M: break
                    V.append(tuple(int(x) for x in p)); i+=1
                j+=1
            k+=1
    return V
def extinct(g,h):
    h=np.array(h)
    for R,t in zip(g.rot,g.trans):
        if np.all(h@R==h) and int(round(24*float(h@t)))%24!=0: return True
    return False
if __name__=='__main__':
    from c05 import conf_cell
    cnt=Counter()
    rhomb=[146,148,155,160,161,166,167]
    sets=[(n,'standard') for n in range(1,16)]+[(n,'rhombohedral') for n in rhomb]
    for seed in range(int(sys.argv[1])):
        rng=np.random.default_rng(300+seed)
        for no,ch in sets:
            g=sg.sg(sgno=no,cell_choice=ch)
            cell=conf_cell(g,rng)
            smax=rng.uniform(0.25,0.5); smin=rng.choice([0,rng.uniform(0,0.2)])
            scale=1.1 if (g.Laue=='-3' and g.cell_choice=='rhombohedral') else 1
            V=scan(cell,SEG[(g.Laue,g.cell_choice=='rhombohedral')],smax*scale)
            stl=metric_stl(cell)
            exp=[h for h in V if h!=(0,0,0) and smin<stl(h)<=smax and not extinct(g,h)]
            got=tools.genhkl_unique(cell,smin,smax,sgno=no,cell_choice=ch)
            gs=sorted(map(tuple,np.round(got).astype(int).tolist()))
            ok= gs==sorted(exp)
            cnt[(g.Laue,g.cell_choice,ok)]+=1
            if not ok: print(no,ch,cell,smin,smax,set(gs)^set(exp))
    print(cnt)
