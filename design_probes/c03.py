import numpy as np
from xfab import tools, laue
rng=np.random.default_rng(3)
worst=0; bad=[]
for it in range(200000):
    phi1,phi2=rng.uniform(0,2*np.pi,2)
    e=10**rng.uniform(-12,-3)
    PHI=e if rng.random()<0.5 else np.pi-e
    U=tools.euler_to_u(phi1,PHI,phi2)
    try:
        ang=tools.u_to_euler(U)
        U2=tools.euler_to_u(*ang)
        err=np.max(np.abs(U2-U))
    except Exception as ex:
        err=np.inf; ang=repr(ex)
    if err>1e-6: bad.append((phi1,PHI,phi2,e,err,ang))
    worst=max(worst,err)
print(worst,len(bad))
for b in bad[:10]: print(b)
import collections
print(collections.Counter(int(np.floor(np.log10(b[3]))) for b in bad))
