import numpy as np, xfab
from xfab import tools, laue, symmetry
from c01 import gen
from c02 import randU
rng=np.random.default_rng(14)
w={}
def upd(k,a,b,scale=1.0):
    a=np.asarray(a,float); b=np.asarray(b,float)
    assert a.shape==b.shape,(k,a.shape,b.shape)
    if a.size: w[k]=max(w.get(k,0),float(np.max(np.abs(a-b)))/scale)
tp=2*np.pi
for it in range(2000):
    cell=gen(); U=randU(); h=rng.integers(-8,9,3); eps=rng.uniform(-.1,.1,6).tolist()
    Bt=tools.form_b_mat(cell); Bl=laue.form_b_mat(cell); upd('form_b',Bt/tp,Bl,np.max(Bl))
    for f in ('form_a_mat','form_a_mat_inv','cell_invert','cell_volume'): upd(f,getattr(tools,f)(cell),getattr(laue,f)(cell),1)
    upd('a_to_cell',tools.a_to_cell(tools.form_a_mat(cell)),laue.a_to_cell(laue.form_a_mat(cell)))
    upd('b_to_cell',tools.b_to_cell(Bt),laue.b_to_cell(Bl))
    upd('sintl',tools.sintl(cell,h),laue.sintl(cell,h)); 
    ubi=tools.u_to_ubi(U,cell); upd('u_to_ubi',ubi,laue.u_to_ubi(U,cell),np.max(np.abs(ubi)))
    upd('ubi_to_u',tools.ubi_to_u(ubi),laue.ubi_to_u(ubi)); upd('ubi_to_cell',tools.ubi_to_cell(ubi),laue.ubi_to_cell(ubi))
    a,b=tools.ubi_to_u_b(ubi),laue.ubi_to_u_b(ubi); upd('ubi_to_u_b U',a[0],b[0]); upd('ubi_to_u_b B',a[1]/tp,b[1],np.max(b[1]))
    upd('ubi_to_rod',tools.ubi_to_rod(ubi),laue.ubi_to_rod(ubi),max(1,np.max(np.abs(laue.ubi_to_rod(ubi)))))
    a,b=tools.ubi_to_u_and_eps(ubi,cell),laue.ubi_to_u_and_eps(ubi,cell); upd('u&eps U',a[0],b[0]); upd('u&eps eps',a[1],b[1])
    upd('eps2b',tools.epsilon_to_b(eps,cell)/tp,laue.epsilon_to_b(eps,cell),np.max(Bl)); upd('eps2b_old',tools.epsilon_to_b_old(eps,cell)/tp,laue.epsilon_to_b_old(eps,cell),np.max(Bl))
    upd('b2eps',tools.b_to_epsilon(Bt*1.01,cell),laue.b_to_epsilon(Bl*1.01,cell)); upd('b2eps_old',tools.b_to_epsilon_old(Bt*1.01,cell),laue.b_to_epsilon_old(Bl*1.01,cell))
    M=rng.standard_normal((3,3)); M=M if np.linalg.det(M)>0 else -M
    a,b=tools.ub_to_u_b(M),laue.ub_to_u_b(M); upd('ub_to_u_b',np.array(a),np.array(b))
    r=rng.standard_normal(3); upd('rod_to_u',tools.rod_to_u(r),laue.rod_to_u(r)); upd('u_to_rod',tools.u_to_rod(U),laue.u_to_rod(U),max(1,np.max(np.abs(laue.u_to_rod(U)))))
    upd('u_to_euler',tools.u_to_euler(U),laue.u_to_euler(U)); e=rng.uniform(0,tp,3); upd('euler_to_u',tools.euler_to_u(*e),laue.euler_to_u(*e))
    lam=rng.uniform(.1,.5); g=U@Bt@h
    if np.any(h) and lam*laue.sintl(cell,h)<1:
        upd('tth',tools.tth(cell,h,lam),laue.tth(cell,h,lam)); upd('tth2',tools.tth2(g,lam),laue.tth2(g/tp,lam))
        t=tools.tth(cell,h,lam); gs=g*lam/(4*np.pi); chi,wd=rng.uniform(-.5,.5,2)
        for f,args in (('find_omega_general',(t,chi,wd)),('find_omega_quart',(t,chi,wd)),('find_omega_wedge',(t,wd)),('find_omega',(t,))):
            a=getattr(tools,f)(gs,*args); b=getattr(laue,f)(g/tp,*args)
            upd(f,np.array(a,float),np.array(b,float))
    for f,args in (('form_omega_mat',(e[0],)),('form_omega_mat_general',tuple(e)),('detect_tilt',tuple(e)),('quart_to_omega',(e[0]*50,e[1],e[2]))): upd(f,getattr(tools,f)(*args),getattr(laue,f)(*args))
for k,v in w.items(): print(k,v)
# C12 Umis invariances
for cs in range(1,8):
    R=symmetry.rotations(cs); worst=0
    for it in range(200):
        U1,U2,Q=randU(),randU(),randU(); j=rng.integers(len(R))
        base=np.sort(symmetry.Umis(U1,U2,cs)[:,1])
        for v in (symmetry.Umis(U1,U2@R[j],cs),symmetry.Umis(U1@R[j],U2,cs),symmetry.Umis(Q@U1,Q@U2,cs),symmetry.Umis(U2,U1,cs)):
            worst=max(worst,np.max(np.abs(np.sort(v[:,1])-base)))
        worst=max(worst,np.min(symmetry.Umis(U1,U1,cs)[:,1]))
    print('Umis',cs,worst)
