import numpy as np, sys, itertools
from collections import defaultdict
from xfab import sg, tools
rhomb=[146,148,155,160,161,166,167]
settings=[(n,'standard') for n in range(1,231)]+[(n,'rhombohedral') for n in rhomb]
def oracle(g,cell,smin,smax):
    from xfab import laue
    B=laue.form_b_mat(cell)
    hmax=[int(np.ceil(2*smax*cell[i]))+1 for i in range(3)]
    H=np.array(list(itertools.product(*[range(-m,m+1) for m in hmax])))
    stl=np.linalg.norm(H@B.T,axis=1)/2
    keep=(stl>smin)&(stl<=smax); H=H[keep]
    ext=np.zeros(len(H),bool)
    for R,t in zip(g.rot,g.trans):
        t24=np.round(np.array(t)*24).astype(int)
        ext|=np.all(H@R==H,axis=1)&((H@t24)%24!=0)
    return H[~ext]
def conf_cell_orth(g,rng):
    a,b,c=rng.uniform(3,9,3); cs=g.crystal_system
    if g.cell_choice=='rhombohedral': return [a,a,a,90,90,90]
    if cs in ('triclinic','monoclinic','orthorhombic'): return [a,b,c,90,90,90]
    if cs=='tetragonal': return [a,a,c,90,90,90]
    if cs in('trigonal','hexagonal'): return [a,a,c,90,90,120]
    return [a,a,a,90,90,90]
fails=defaultdict(list)
for seed in range(8):
    rng=np.random.default_rng(100+seed)
    for no,ch in settings:
        if ch=='rhombohedral': continue
        g=sg.sg(sgno=no,cell_choice=ch)
        cell=conf_cell_orth(g,rng)
        smax=rng.uniform(0.3,0.55); smin=0
        Ho=oracle(g,cell,smin,smax)
        got=tools.genhkl_all(cell,smin,smax,sgno=no,cell_choice=ch)
        gs=set(map(tuple,np.round(got).astype(int).tolist())); os_=set(map(tuple,Ho.tolist()))
        key=lambda h:(sum(x*x for x in h),h)
        if gs!=os_ or len(gs)!=len(got):
            fails[(no,g.name)].append((len(os_-gs),len(gs-os_),sorted(os_-gs,key=key)[-2:],sorted(gs-os_,key=key)[-2:]))
for k,v in sorted(fails.items()): print(k,len(v),v[0])
print(len(fails))
