import os, sys, struct, tempfile, shutil, math, time
import hypothesis
from hypothesis import settings, strategies as st, HealthCheck
from hypothesis.stateful import RuleBasedStateMachine, rule, invariant, precondition, run_state_machine_as_test, initialize
from xfab import parameters as P
import logging; logging.getLogger('xfab.parameters').disabled=True
SEED=int(os.environ.get('VERIF_SEED','0'))
TMP=tempfile.mkdtemp()
ident=st.from_regex(r'[a-z][a-z0-9_]{0,5}',fullmatch=True)
hyph=st.builds(lambda a,b:a+'-'+b,ident,ident)
names=st.one_of(ident,ident,hyph)
asciis=st.text(alphabet=st.characters(min_codepoint=33,max_codepoint=126),max_size=8)
numlike=st.sampled_from(['12','-7','1e5','1_000','nan','inf','-inf','0x10','1.5','.5','5.','+3','1e400','००'.encode('ascii','ignore').decode() or '7'])
ints=st.one_of(st.integers(-10**6,10**6),st.sampled_from([0,2**53+1,-(2**53)-1,10**30,2**63]))
floats=st.floats(allow_nan=True,allow_infinity=True)
values=st.one_of(ints,floats,asciis,numlike)
def coerce(v):
    if type(v)==str:
        try: vf=float(v)
        except ValueError: return v.strip()
        try: vi=int(v)
        except ValueError: return vf
        return vi if abs(vi-vf)<1e-9 else vf
    return v
def same(a,b):
    if type(a)!=type(b): return False
    if type(a)==float: return struct.pack('d',a)==struct.pack('d',b)
    return a==b
class Bag: pass
class M(RuleBasedStateMachine):
    def __init__(self):
        super().__init__(); self.real=P.parameters(); self.model={}; self.vary=[]; self.varl=[]; self.steps={}; self.n=0
    @rule(n=names,v=values,vary=st.booleans(),can=st.booleans(),step=st.one_of(st.none(),st.floats(0.001,1)))
    def addpar(self,n,v,vary,can,step):
        self.real.addpar(P.par(n,v,vary=vary,can_vary=can,stepsize=step)); self.model[n]=v
        if vary and n not in self.vary: self.vary.append(n)
        if can and n not in self.varl: self.varl.append(n); self.steps[n]=step
    @rule(n=names,v=values)
    def set(self,n,v): self.real.set(n,v); self.model[n]=v
    @rule(d=st.dictionaries(names,values,max_size=4))
    def set_parameters(self,d):
        self.real.set_parameters(d); self.model.update(d); self.model={k:coerce(v) for k,v in self.model.items()}
    @rule(data=st.data())
    def set_varylist(self,data):
        cand=[n for n in self.varl if n in self.model]
        vl=data.draw(st.lists(st.sampled_from(cand),unique=True)) if cand else []
        self.real.set_varylist(list(vl)); self.vary=list(vl)
    @rule(n=names)
    def set_varylist_invalid(self,n):
        if n in self.varl and n in self.model: return
        try: self.real.set_varylist([n]); raise RuntimeError('no assertion')
        except AssertionError: pass
    @rule(data=st.data())
    def set_variable_values(self,data):
        if any(n not in self.model for n in self.vary): return
        vals=data.draw(st.lists(values,min_size=len(self.vary),max_size=len(self.vary)))
        self.real.set_variable_values(vals)
        for n,v in zip(self.vary,vals): self.model[n]=v
    @rule(attrs=st.dictionaries(ident,values,max_size=3))
    def update_yourself(self,attrs):
        o=Bag(); [setattr(o,k,v) for k,v in attrs.items()]
        self.real.update_yourself(o)
        for k in list(self.model):
            if k in attrs: self.model[k]=attrs[k]
    @rule(attrs=st.dictionaries(ident,values,max_size=3))
    def update_other(self,attrs):
        o=Bag(); [setattr(o,k,v) for k,v in attrs.items()]
        self.real.update_other(o)
        for k in attrs:
            exp=self.model[k] if k in self.model else attrs[k]
            assert same(getattr(o,k),exp)
    @rule()
    def save_load_fresh(self):
        if not all(type(v) in (int,float,str) and (type(v)!=str or not any(c.isspace() for c in v)) for v in self.model.values()): return
        self.n+=1; f=os.path.join(TMP,'p%d.par'%os.getpid())
        self.real.saveparameters(f)
        lines=open(f).read().split('\n')
        assert lines[-1]=='' and [l.split(' ')[0] for l in lines[:-1]]==sorted(self.model)
        q=P.read_par_file(f); got=q.get_parameters()
        exp={}
        for k in sorted(self.model): exp[k.replace('-','_')]=coerce(str(self.model[k]))
        assert set(got)==set(exp),(got,exp)
        for k in exp: assert same(got[k],exp[k]),(k,got[k],exp[k])
        # round trip claim for int/float/non-numeric strings
        for k,v in self.model.items():
            kk=k.replace('-','_')
            if sum(1 for x in self.model if x.replace('-','_')==kk)>1: continue
            if type(v) in (int,float): assert same(got[kk],v),(k,v,got[kk])
    @invariant()
    def agrees(self):
        gp=self.real.get_parameters()
        assert set(gp)==set(self.model)
        for k,v in self.model.items(): assert same(gp[k],v) and same(self.real.get(k),v),(k,v,gp[k])
        if all(n in self.model for n in self.vary):
            gv=self.real.get_variable_values(); assert len(gv)==len(self.vary) and all(same(a,self.model[n]) for a,n in zip(gv,self.vary))
        assert self.real.get_variable_list()==self.varl
t0=time.time()
try:
    run_state_machine_as_test(hypothesis.seed(SEED)(M),settings=settings(max_examples=int(sys.argv[1]),stateful_step_count=30,deadline=None,database=None,suppress_health_check=list(HealthCheck)))
    print('ok',time.time()-t0)
finally: shutil.rmtree(TMP)
