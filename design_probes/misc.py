import numpy as np, time, itertools
from xfab import tools, laue, sg
from c05d import settings
rng=np.random.default_rng(77)
# (3) axis aligned + generic
Rx=lambda t:np.array([[1,0,0],[0,np.cos(t),-np.sin(t)],[0,np.sin(t),np.cos(t)]])
Rz=lambda t:np.array([[np.cos(t),-np.sin(t),0],[np.sin(t),np.cos(t),0],[0,0,1]])
worst=0;bad=0
mats=[np.array(p).reshape(3,3) for p in itertools.product([-1,0,1],repeat=9)]
mats=[m.astype(float) for m in mats if np.array_equal(m@m.T,np.eye(3,dtype=int)) and round(np.linalg.det(m))==1]
print(len(mats))
from c02 import randU
for U in mats+[randU() for _ in range(20000)]+[m@Rz(10**rng.uniform(-12,-3)) for m in mats for _ in range(50)]+[Rx(10**rng.uniform(-12,-3))@m for m in mats for _ in range(50)]:
    try:
        a=tools.u_to_euler(U); assert 0<=a[0]<=2*np.pi and 0<=a[1]<=np.pi and 0<=a[2]<=2*np.pi
        e=np.max(np.abs(Rz(a[0])@Rx(a[1])@Rz(a[2])-U))
    except Exception as ex: e=np.inf
    worst=max(worst,e); bad+=e>1e-6
print('euler worst',worst,bad)
# (1) boundary semantics & (2) speed
t0=time.time(); n=0; fails=0; tot=0
for no,ch in settings[15:230:3]:
    g=sg.sg(sgno=no)
    a,b,c=rng.uniform(4,9,3); cs=g.crystal_system
    cell={'orthorhombic':[a,b,c,90,90,90],'tetragonal':[a,a,c,90,90,90],'trigonal':[a,a,c,90,90,120],'hexagonal':[a,a,c,90,90,120],'cubic':[a,a,a,90,90,90]}[cs]
    U=tools.genhkl_unique(cell,0,0.4,sgno=no,output_stl=True); n+=1
    if len(U)<3: continue
    r=U[rng.integers(1,len(U))]
    s=tools.sintl(cell,r[:3]); assert s==r[3]
    inc=tools.genhkl_unique(cell,0,s,sgno=no); exc=tools.genhkl_unique(cell,s,0.4,sgno=no)
    tot+=1
    if not any(np.array_equal(x,r[:3]) for x in inc) or any(np.array_equal(x,r[:3]) for x in exc): fails+=1
print('boundary fails',fails,'of',tot)
t0=time.time()
for no,ch in settings[15:230:3]:
    g=sg.sg(sgno=no); 
    A=tools.genhkl_all([6,6,6,90,90,90] if g.crystal_system=='cubic' else ([6,6,7,90,90,120] if g.crystal_system in('trigonal','hexagonal') else [6,6,7,90,90,90]),0,0.5,sgno=no)
print('genhkl_all avg s',(time.time()-t0)/len(settings[15:230:3]),len(A))
