#!/venv/bin/python
"""Single entry point: run_check.py --property Cxx --tier quick|thorough [--replay file]

exit 0: property held on everything explored (possibly with KNOWN-FINDING lines)
exit 1: VIOLATION property=<id> replay=<path>
exit 2: harness error (never reported as a violation)"""
import os, sys, argparse

HERE = os.path.dirname(os.path.abspath(__file__))


def _ensure_env():
    # deterministic hashing, no .pyc next to the tree under test
    if os.environ.get("PYTHONHASHSEED") != "0" or not sys.flags.dont_write_bytecode:
        env = dict(os.environ, PYTHONHASHSEED="0", PYTHONDONTWRITEBYTECODE="1",
                   OMP_NUM_THREADS="1", OPENBLAS_NUM_THREADS="1", MKL_NUM_THREADS="1")
        os.execve(sys.executable, [sys.executable, "-B", "-W", "ignore"] + sys.argv, env)


def _ensure_deps():
    deps = os.path.join(HERE, ".deps")
    if os.path.isdir(deps) and deps not in sys.path:
        sys.path.insert(1, deps)
    try:
        import hypothesis  # noqa
    except ImportError:
        import subprocess
        subprocess.call([sys.executable, "-m", "pip", "install", "-q", "--no-index", "--find-links",
                         "/opt/veriftools/wheels", "--target", deps, "hypothesis"])
        sys.path.insert(1, deps)
        import hypothesis  # noqa


def main():
    ap = argparse.ArgumentParser()
    ap.add_argument("--property", required=True)
    ap.add_argument("--tier", default=os.environ.get("VERIF_TIER", "quick"), choices=["quick", "thorough"])
    ap.add_argument("--replay")
    ap.add_argument("--nproc", type=int, default=int(os.environ.get("VERIF_NPROC", "16")))
    a = ap.parse_args()
    _ensure_env()
    os.chdir(HERE)
    sys.path.insert(0, HERE)
    _ensure_deps()
    import warnings
    warnings.simplefilter("ignore")
    import numpy
    numpy.seterr(all="ignore")
    try:
        seed = int(os.environ.get("VERIF_SEED", "0"))
    except ValueError:
        seed = 0
    from vlib import harness
    try:
        rc = harness.main_run(a.property.lower(), a.tier, seed, nproc=a.nproc, replay=a.replay)
    except harness.HarnessError as e:
        sys.stderr.write("HARNESS-ERROR property=%s\n%s\n" % (a.property, e))
        rc = 2
    except Exception:
        import traceback
        sys.stderr.write("HARNESS-ERROR property=%s\n%s\n" % (a.property, traceback.format_exc()))
        rc = 2
    sys.exit(rc)


if __name__ == "__main__":
    main()
