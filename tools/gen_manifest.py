#!/venv/bin/python
"""Regenerates /verif/MANIFEST.json from the table below (kept here so that the manifest
stays consistent with what is implemented)."""
import json, os
HERE = os.path.dirname(os.path.dirname(os.path.abspath(__file__)))

CHECKS = {
 "C02": dict(technique="Hypothesis PBT: constructed U0.B0 factorisations, round trips against the generating values and the definition UBI.UBI'=G",
    text="Generated rotations (uniform quaternions, near-singular Euler, axis-aligned, products) x cells x hkl; UB matrices are constructed from a known (U0,B0) so uniqueness of the QR split is checked against the generating pair, not against the function itself. 10k cases quick / 480k thorough, tolerance 1e-9 (measured 2e-12).",
    note="Trusted: numpy inv/cond; cond(B0) < 1e6 as the property states.", ref="4/C02"),
 "C03": dict(technique="Hypothesis PBT: constructors vs products of independently written elementary rotations; inverses by rebuild within 1e-6 with heavy near-gimbal weighting",
    text="All six constructors over all real angles (checks off for out-of-range Euler angles) compared at 1e-12 with elementary-rotation products; u_to_euler/u_to_rod on proper rotations incl. PHI exactly 0/pi, PHI 1e-12..1e-3 from them, axis-aligned matrices, products leaving [-1,1] by an ulp and float32-rounded rotations, rebuilt within the property's 1e-6. 30k cases quick, 1.6M thorough.",
    note="For float32-rounded (not exactly proper) inputs the rebuild tolerance adds the input's distance from SO(3) amplified by 1/sin(PHI); rotation angles within 1e-4 deg of 180 are excluded for u_to_rod (property: 1e-6 deg; the trace cannot resolve closer).", ref="4/C03"),
 "C09": dict(technique="Hypothesis PBT: diffraction condition evaluated with the solver's own matrix builder, trigonometric existence criterion for completeness, cross-solver agreement",
    text="Every returned (omega, eta) of the four solvers in both modules is substituted back (x = -sin^2 theta, (y,z) from eta) at 1e-9; the number of solutions is compared with the existence criterion |rhs| < amplitude obtained from M(0)g, M(pi/2)g, M(pi)g (tangency band 1e-6 excluded); agreement at coinciding tilts; tth/tth2 vs the metric oracle. 20k cases quick (31% with both tilts non-zero), 960k thorough.",
    note="find_omega_wedge is judged with Ry(-wedge).Rz(omega) as the property states.", ref="4/C09"),
 "C10": dict(technique="Hypothesis PBT: independent ray/plane intersection oracle",
    text="det_coor and det_coor2 are compared with each other and with an independently computed intersection of the ray t+s.v with the tilted detector plane; detector_to_lab of the pixel must lie on the ray (s>0) and in the plane. 20k cases quick, 960k thorough.",
    note="Trusted: elementary rotations in vlib; tolerance 1e-7 pixel-relative / 1e-9 x distance.", ref="4/C10"),
 "C11": dict(technique="exhaustive enumeration (81 orientations x 64 shapes x every pixel) + Hypothesis PBT for large non-square detectors, real coordinates and (eta, radius)",
    text="Exhaustive over all 81 matrices, shapes 1..8 x 1..8, every pixel, both directions: acceptance/rejection, exact inverse pairs for trans_orientation / image_flipping, xy_to_detyz lands where trans_orientation stores the pixel, detyz_to_xy is its inverse. Generated: sizes up to 3000x3000, real coordinates, eta/radius round trips.",
    note="radius >= 1.000001 (rounding margin at the exact boundary 1); eta compared modulo 360 with an arccos-conditioning-aware tolerance.", ref="4/C11"),
 "C12": dict(technique="exhaustive group-axiom check of the 7 operator tables + Hypothesis metamorphic relations on Umis",
    text="All operators and ordered pairs of the 7 systems: order, integrality, unimodularity, closure, duplicates, orthonormality, cache equality, out-of-range rejection. Generated: pairing rot.B.perm=B for conforming cells (both B conventions), Umis equals the independently computed rotation angles (through cosines, 1e-12), multiset invariance under symmetry-equivalents, common rotation, swap; Umis(U,U) contains 0.",
    note="Angles compared via cosines because arccos is ill-conditioned at 0/180.", ref="4/C12"),
 "C13": dict(technique="Hypothesis PBT: inverse pairs plus the definition sym(B0.inv(B))-I computed independently",
    text="epsilon_to_b/b_to_epsilon and the _old pair as mutual inverses, zero strain, definition, upper-triangularity, and ubi_to_u_and_eps on the module's own UBI convention. 10k cases quick, 640k thorough. Known finding K2 (tools strain off by 2pi) is matched by exact signature only.",
    note="K2 is reported as KNOWN-FINDING only when eps_returned = 2pi(e+I)-I within 1e-8 AND the function is right for UBI/2pi; any other deviation is a violation.", ref="4/C13"),
 "C16": dict(technique="exhaustive table check (94 elements x 2001-point grid, analytic monotonicity) + Hypothesis point-wise checks",
    text="Every table entry: f(0)=Z within 0.1 against an independent Z list, positivity and strict decrease on [0,2] (analytically where all a_i*b_i>0, grid + Lipschitz bound otherwise), FormFactor equals the nine-coefficient formula to 1e-13.",
    note="Exhaustive over the finite table; continuous s covered by grid + derivative bound.", ref="4/C16"),
 "C04": dict(technique="exhaustive exact-arithmetic group check of all 237 tables + Hypothesis name-variant and conforming-cell generation",
    text="Every setting, every operation and every ordered pair of operations (closure, inverses, duplicates, counts, nuniq block, centring count) in integer/24th arithmetic; Laue class against reference groups generated from hand-written generators; crystal system; exact metric preservation on a basis of conforming metric tensors; no two numbers share an operator table; every dictionary key, plus generated case/whitespace/R..h/R..r variants and random conforming cells.",
    note="Exhaustive over the finite tables (exhaustive:true); name variants and cells are sampled.", ref="4/C04"),
 "C05": dict(technique="Hypothesis PBT per space-group setting against brute-force reciprocal-lattice enumeration with operator extinction; scan model to recognise known finding K1",
    text="All 237 settings in every run; conforming cells incl. orthogonal-metric triclinic/monoclinic ones, shells whose bounds are mid-gap between lattice sin(theta)/lambda values, by name and by number, two numpy seeds, both modules. genhkl_all must equal the oracle set exactly (no extra, missing, repeated rows), be RNG independent, and match between hexagonal and rhombohedral settings under the obverse transformation. 9.5k cases quick, 95k thorough.",
    note="The early-exit scan defect (former known finding K1) was repaired in /repo (fix: bcdf686); a regression to it is classified by an independent model of the documented scan (bucket K1-scan-early-exit/*) and reported as a violation.", ref="4/C05"),
 "C06": dict(technique="Hypothesis PBT per setting: Laue-orbit partition, union, sortedness, metric-oracle stl column, boundary metamorphic re-calls",
    text="genhkl_unique rows have pairwise disjoint Laue orbits whose union is exactly genhkl_all, every row is an allowed reflection of the shell and every allowed family is represented (K1 as in C05), column 4 equals the metric-tensor sin(theta)/lambda (1e-12) and is non-decreasing, rows identical with/without output_stl, sintlmax inclusive / sintlmin exclusive by re-calling with a returned row's own sintl.",
    note="Former known finding K1 repaired (fix: bcdf686); a regression is classified by the same scan-model predicate as in C05 and reported as a violation.", ref="4/C06"),
 "C07": dict(technique="Hypothesis PBT per setting: metamorphic relation F(hR) = F(h) exp(-2 pi i h.t), extinction, Friedel",
    text="All 237 settings by name (case/blank variants); general-position atoms with Uiso / positive-definite Uani / no ADP and any element; transformation law, |F| over the orbit, F=0 for operator-extinct reflections, Friedel pairs. Tolerance is a rigorous bound from the 6-digit rounding of tabulated thirds/sixths plus 1e-9 of the total scattering power.",
    note="Relation derived from the group law (R,t)(R_j,t_j); rounding allowance 4 pi sum(occ f0) nsymop |h|_1 delta.", ref="4/C07"),
 "C08": dict(technique="Hypothesis PBT per setting: differential against an explicit unit-cell sum built from exact rational orbits",
    text="StructureFactor compared with the direct sum over every distinct image of every site (general and special positions with exact multiplicity, site-symmetrised Uani, dispersion table present / partially None / absent, hkl incl. 000, oblique cells), plus lattice-shift invariance, occupancy linearity, Uiso == equivalent Uani, F(000).",
    note="Form factor recomputed from the nine coefficients; sin(theta)/lambda from the metric tensor, not from xfab.", ref="4/C08"),
 "C14": dict(technique="Hypothesis differential testing tools vs laue over all 41 common functions",
    text="Every function defined in both modules is called on the same generated input under the documented convention map (B x 2pi, g x 2pi, everything else identical); reflection lists compared as integer row sets + stl; exceptions must agree in type. The common-function list is recomputed with inspect at run time. 8k cases quick, 190k thorough.",
    note="K2 (tools.ubi_to_u_and_eps strain) matched by exact signature; near-tangency solution counts are not claimed.", ref="4/C14"),
 "C15": dict(technique="Hypothesis PBT per setting + exhaustive 1728-point rational grid (thorough) against an exact Fraction orbit count",
    text="All 237 settings; grid and family positions (x,x,z),(x,2x,z),(x,-x,z),(x,0,z),(x,x,x),(x,y,z), lattice shifts, by name variants and by number; multiplicity must equal the exact orbit size. Thorough enumerates the whole grid for every setting (409k positions).",
    note="Positions whose distinct images come closer than 1e-4 are skipped (the code's own 1e-5 threshold would make the answer threshold-dependent).", ref="4/C15"),
 "C17": dict(technique="Hypothesis structure-aware file generation (CIF and PDB writers) with the generating model as oracle",
    text="Generated well-formed CIF blocks (all adp kinds, esds, optional occupancy / multiplicity spellings / atom-type loop / global block, aniso loop in different order) and PDB files (all 230 symbols in PDB style incl. place-holder and non-place-holder '1's, oblique cells, ATOM/HETATM); every stored field compared with the numbers as printed; computed multiplicities against the exact orbit.",
    note="PyCifRW (third party) parses the CIF text; the writer obeys its well-formedness rules.", ref="4/C17"),
 "C18": dict(technique="Hypothesis PBT against an independent successive-minima search with tie enumeration and a unimodular-equivalence search",
    text="Reduced-like cells and conforming families, optionally transformed by one of the 6960 unimodular {-1,0,1} matrices; output metric must be R.R' for a basis R the independent search admits, volume preserved, integer unimodular relation to the input metric. Known finding K3 (cell of R'R) recognised by exact signature only.",
    note="Cases whose true successive minima lie outside |u|,|v|,|w| <= 2 are outside the stated domain and skipped (counted).", ref="4/C18"),
 "C19": dict(technique="Hypothesis rule-based state machine against a dict model + Hypothesis save/load round trips",
    text="Histories of <= 30 API calls (addpar, set, set_parameters, set_varylist valid/invalid, set_variable_values right/wrong length, update_other, update_yourself, save+load fresh, load into self) compared with a plain dict/list model after every step (type-exact, floats bit-exact); separate round-trip cases over all value types the format carries. Failing histories are minimised by deletion and replayed without Hypothesis.",
    note="Whitespace / non-ASCII values are outside the domain; NaN compared as is-NaN.", ref="4/C19"),
 "C20": dict(technique="Hypothesis rule-based state machine: switch model x clearly-valid / clearly-invalid input classes",
    text="Histories of assignments (valid and 10 kinds of invalid values) interleaved with calls of the nine guarded APIs of both modules and Umis on clearly valid inputs (exact, float32-rounded, 1e-7 noise, in-range Euler incl. end points, right-handed UBI) and clearly invalid ones (>=3e-3 perturbation, improper, scaled, out-of-range Euler, left-handed UBI, det<0 UB); rejection recognised operationally; values must not depend on the switch.",
    note="In the off state only the library's own 'Wrong trace'/_arctan2 value errors are tolerated.", ref="4/C20"),
 "C01": dict(technique="Hypothesis property-based testing against an independent metric-tensor oracle",
    text="Generated-input search (20k cases quick, 800k thorough) over the whole stated cell domain incl. the Gram=0.02 boundary; every case compares A, B, volume, sintl, cell_invert and the inverse maps of both modules with the metric tensor written from its definition at 1e-9 relative. Exploration, not proof: it never establishes absence, but any formula edit moves results by >=1e-3 on oblique cells, which make up >40% of cases.",
    note="Trusted: numpy linear algebra, Hypothesis generation; tolerances 1e-9/1e-8 (measured worst 2e-13).", ref="4/C01"),
}
PENDING = {}
COMMON = (" Every generated case also carries history and boundary elements where they apply: read-only array arguments, one caller-held object reused "
          "in place for a previous input, results of earlier calls re-verified after later ones, an earlier call repeated later in the process must "
          "give the same value, exact special values and values 1e-12..1e-2 away from them, integer / float32 / list-vs-array typing and row- / column-major layout of the same "
          "values (incl. whole-number cells and positions typed as Python ints), and the far ends of the stated domain in size (indices of 100-300, "
          "500 A and needle-shaped cells, shells of tens of thousands of reflections, thousands of parameters, many-cell shifts) in a fixed share of the cases. "
          "Sensitivity: 360 independently seeded changes (seeded/, 18 per property, written by sub-agents that saw only the property text; 3 obsoleted by a "
          "later repair, 12 not claimed because they lie outside the property as stated - DESIGN.md 9.4) and every reverted fix: commit make the quick check exit 1; quiet on the unchanged tree at every "
          "VERIF_SEED tried (quick: 0-7, 11-13, 21-24, 31-33, 41-42, 51-52, 61, 71-72; thorough: 0, 7 and, for the checks changed last, 11); a mechanical AST-mutation sweep "
          "(tools/mutants.py: 144 mutants that pass the repository's tests, 117 caught, 27 triaged as equivalent or outside the property) is recorded in DESIGN.md 9.6.")

def main():
    props = [json.loads(l) for l in open(os.path.join(HERE, "properties.jsonl"))]
    checks, na = [], []
    for p in props:
        i = p["id"]
        if i in CHECKS:
            c = CHECKS[i]
            checks.append({
                "property_id": i,
                "quick_cmd": "./run_check.py --property %s --tier quick" % i,
                "thorough_cmd": "./run_check.py --property %s --tier thorough" % i,
                "evidence_file": "evidence/%s.json" % i,
                "replay_cmd_template": "./run_check.py --property %s --replay {path}" % i,
                "engine": "xfab-pbt",
                "level_claimed": {"category": "exploration", "text": c["text"] + COMMON, "design_ref": "DESIGN.md section " + c["ref"] + " and 9"},
                "level_note": c["note"],
                "technique": c["technique"],
            })
        else:
            na.append({"property_id": i, "reason": PENDING.get(i, "check not built yet in this round (design in DESIGN.md section 4); no claim is made")})
    m = {
        "version": 1,
        "setup_cmd": "/venv/bin/python tools/setup.py",
        "hooks": {"guard": "XFAB_VERIF", "enable": "none needed: pure Python, the checks import /repo's working tree directly (XFAB_VERIF_REPO=<dir> points them at a scratch copy); no instrumentation was added to /repo",
                  "baseline_off_cmd": "cd /repo && /venv/bin/python -m pytest -q -p no:cacheprovider",
                  "source_commits": [], "add_only": True},
        "engines": [{"name": "xfab-pbt", "path": "run_check.py", "serves_properties": [c["property_id"] for c in checks],
                     "kind_free_text": "Hypothesis 6.168 property-based testing (rule-based state machines for C19/C20), exhaustive enumeration of the finite sub-domains, collect-bucket-shrink harness in vlib/"}],
        "checks": checks,
        "not_applicable": na,
        "notes": "Every check: exit 0 held, exit 1 + VIOLATION line, exit 2 harness error. VERIF_SEED selects the Hypothesis seed; known_findings.json lists recorded defects (KNOWN-FINDING lines) and the fix: commits applied to /repo.",
    }
    json.dump(m, open(os.path.join(HERE, "MANIFEST.json"), "w"), indent=1)
    print("checks", len(checks), "not_applicable", len(na))

if __name__ == "__main__":
    main()
