#!/venv/bin/python
"""Regenerates /verif/MANIFEST.json from the table below (kept here so that the manifest
stays consistent with what is implemented)."""
import json, os
HERE = os.path.dirname(os.path.dirname(os.path.abspath(__file__)))

CHECKS = {
 "C01": dict(technique="Hypothesis property-based testing against an independent metric-tensor oracle",
    text="Generated-input search (20k cases quick, 800k thorough) over the whole stated cell domain incl. the Gram=0.02 boundary; every case compares A, B, volume, sintl, cell_invert and the inverse maps of both modules with the metric tensor written from its definition at 1e-9 relative. Exploration, not proof: it never establishes absence, but any formula edit moves results by >=1e-3 on oblique cells, which make up >40% of cases.",
    note="Trusted: numpy linear algebra, Hypothesis generation; tolerances 1e-9/1e-8 (measured worst 2e-13).", ref="4/C01"),
}
PENDING = {}

def main():
    props = [json.loads(l) for l in open(os.path.join(HERE, "properties.jsonl"))]
    checks, na = [], []
    for p in props:
        i = p["id"]
        if i in CHECKS:
            c = CHECKS[i]
            checks.append({
                "property_id": i,
                "quick_cmd": "./run_check.py --property %s --tier quick" % i,
                "thorough_cmd": "./run_check.py --property %s --tier thorough" % i,
                "evidence_file": "evidence/%s.json" % i,
                "replay_cmd_template": "./run_check.py --property %s --replay {path}" % i,
                "engine": "xfab-pbt",
                "level_claimed": {"category": "exploration", "text": c["text"], "design_ref": "DESIGN.md section " + c["ref"]},
                "level_note": c["note"],
                "technique": c["technique"],
            })
        else:
            na.append({"property_id": i, "reason": PENDING.get(i, "check not built yet in this round (design in DESIGN.md section 4); no claim is made")})
    m = {
        "version": 1,
        "setup_cmd": "/venv/bin/python tools/setup.py",
        "hooks": {"guard": "XFAB_VERIF", "enable": "none needed: pure Python, the checks import /repo's working tree directly (XFAB_VERIF_REPO=<dir> points them at a scratch copy); no instrumentation was added to /repo",
                  "baseline_off_cmd": "cd /repo && /venv/bin/python -m pytest -q -p no:cacheprovider",
                  "source_commits": [], "add_only": True},
        "engines": [{"name": "xfab-pbt", "path": "run_check.py", "serves_properties": [c["property_id"] for c in checks],
                     "kind_free_text": "Hypothesis 6.168 property-based testing (rule-based state machines for C19/C20), exhaustive enumeration of the finite sub-domains, collect-bucket-shrink harness in vlib/"}],
        "checks": checks,
        "not_applicable": na,
        "notes": "Every check: exit 0 held, exit 1 + VIOLATION line, exit 2 harness error. VERIF_SEED selects the Hypothesis seed; known_findings.json lists recorded defects (KNOWN-FINDING lines) and the fix: commits applied to /repo.",
    }
    json.dump(m, open(os.path.join(HERE, "MANIFEST.json"), "w"), indent=1)
    print("checks", len(checks), "not_applicable", len(na))

if __name__ == "__main__":
    main()
