#!/venv/bin/python
"""MANIFEST.setup_cmd: make sure hypothesis is importable (offline wheelhouse), nothing else to build."""
import os, sys, subprocess
HERE = os.path.dirname(os.path.dirname(os.path.abspath(__file__)))
deps = os.path.join(HERE, ".deps")
sys.path.insert(1, deps)
try:
    import hypothesis
except ImportError:
    rc = subprocess.call([sys.executable, "-m", "pip", "install", "-q", "--no-index", "--find-links",
                          "/opt/veriftools/wheels", "--target", deps, "hypothesis"])
    if rc:
        sys.exit(rc)
import numpy, CifFile  # noqa: the repository's own dependencies
print("setup ok")
