#!/venv/bin/python
"""Development tool: mechanical mutation sweep (complements the hand-written seeded catalogue).

  mutants.py <n-per-file> [--seed N] [--only tools.py,detector.py,...] [--per-function k] [--skip fn,fn] [--out /root/mutants.json]

For every target function (table FUNCS: function -> properties whose check must notice) one-site AST mutants are
generated (arithmetic / comparison operator replaced, numeric constant changed, unary minus dropped, small subscript
index changed, sin<->cos / arcsin<->arccos, two call arguments swapped).  Each mutant is written into a fresh scratch
clone of /repo (removed afterwards); mutants that break the import or the repository's own 73 tests are discarded
("killed by the suite"); for the others the mapped property's quick check is run against the clone.  Survivors are
listed for manual triage (equivalent mutant / outside the property / gap in the check).  /repo is never touched."""
import ast, copy, json, os, random, shutil, subprocess, sys, tempfile, time

VERIF = os.path.dirname(os.path.dirname(os.path.abspath(__file__)))
PY = "/venv/bin/python"
FUNCS = {
    "tools.py": {
        "form_a_mat": ["C01"], "form_b_mat": ["C01"], "cell_volume": ["C01"], "cell_invert": ["C01"], "sintl": ["C01"], "a_to_cell": ["C01"],
        "b_to_cell": ["C01"], "form_a_mat_inv": ["C01"],
        "u_to_ubi": ["C02"], "ubi_to_u": ["C02"], "ubi_to_cell": ["C02"], "ubi_to_u_b": ["C02"], "ub_to_u_b": ["C02"], "ubi_to_rod": ["C02"],
        "euler_to_u": ["C03"], "u_to_euler": ["C03"], "rod_to_u": ["C03"], "u_to_rod": ["C03"], "form_omega_mat": ["C03"],
        "form_omega_mat_general": ["C03"], "quart_to_omega": ["C03"], "detect_tilt": ["C03"], "_arctan2": ["C03"],
        "find_omega": ["C09"], "find_omega_general": ["C09"], "find_omega_quart": ["C09"], "find_omega_wedge": ["C09"], "tth": ["C09"], "tth2": ["C09"],
        "epsilon_to_b": ["C13"], "b_to_epsilon": ["C13"], "epsilon_to_b_old": ["C13"], "b_to_epsilon_old": ["C13"], "ubi_to_u_and_eps": ["C13"],
        "reduce_cell": ["C18"],
        "genhkl_all": ["C05"], "genhkl_unique": ["C06"], "genhkl_base": ["C06"], "sysabs": ["C05"], "sysabs_unique": ["C06"]},
    "detector.py": {
        "det_coor": ["C10"], "det_coor2": ["C10"], "detector_to_lab": ["C10"], "det_v": ["C10"],
        "trans_orientation": ["C11"], "image_flipping": ["C11"], "xy_to_detyz": ["C11"], "detyz_to_xy": ["C11"],
        "detyz_to_eta_and_radpix": ["C11"], "eta_and_radpix_to_detyz": ["C11"]},
    "symmetry.py": {"Umis": ["C12"], "permutations": ["C12"], "rotations": ["C12"]},
    "structure.py": {"multiplicity": ["C15"], "FormFactor": ["C16"], "StructureFactor": ["C08"], "Uij2betaij": ["C08"],
                     "CIFread": ["C17"], "PDBread": ["C17"], "remove_esd": ["C17"]},
    "parameters.py": {"*": ["C19"]},
    "checks.py": {"*": ["C20"]},
    "sg.py": {"__init__": ["C04"]},
}
SWAP_BIN = {ast.Add: ast.Sub, ast.Sub: ast.Add, ast.Mult: ast.Div, ast.Div: ast.Mult}
SWAP_CMP = {ast.Lt: ast.LtE, ast.LtE: ast.Lt, ast.Gt: ast.GtE, ast.GtE: ast.Gt, ast.Eq: ast.NotEq, ast.NotEq: ast.Eq}
SWAP_NAME = {"sin": "cos", "cos": "sin", "arcsin": "arccos", "arccos": "arcsin", "floor": "ceil", "min": "max", "max": "min"}


def sites(fn):
    """(kind, node) pairs inside one function definition"""
    out = []
    for node in ast.walk(fn):
        if isinstance(node, ast.BinOp) and type(node.op) in SWAP_BIN:
            out.append(("binop", node))
        elif isinstance(node, ast.Compare) and len(node.ops) == 1 and type(node.ops[0]) in SWAP_CMP:
            out.append(("cmp", node))
        elif isinstance(node, ast.Constant) and isinstance(node.value, (int, float)) and not isinstance(node.value, bool):
            out.append(("const", node))
        elif isinstance(node, ast.UnaryOp) and isinstance(node.op, ast.USub) and not isinstance(node.operand, ast.Constant):
            out.append(("usub", node))
        elif isinstance(node, ast.Attribute) and node.attr in SWAP_NAME:
            out.append(("name", node))
        elif isinstance(node, ast.Call) and len(node.args) == 2 and not node.keywords and isinstance(node.func, ast.Attribute) and node.func.attr in ("dot", "arctan2", "cross"):
            out.append(("argswap", node))
    return out


def apply(kind, node, rnd):
    if kind == "binop":
        old = type(node.op).__name__
        node.op = SWAP_BIN[type(node.op)]()
        return "%s -> %s" % (old, type(node.op).__name__)
    if kind == "cmp":
        old = type(node.ops[0]).__name__
        node.ops = [SWAP_CMP[type(node.ops[0])]()]
        return "%s -> %s" % (old, type(node.ops[0]).__name__)
    if kind == "const":
        old = node.value
        if isinstance(old, int):
            node.value = rnd.choice([old + 1, old - 1]) if old not in (0, 1) else 1 - old
        else:
            node.value = rnd.choice([old * 1.001, old * 2.0, -old]) if old != 0 else 1e-6
        return "constant %r -> %r" % (old, node.value)
    if kind == "usub":
        node.op = ast.UAdd()
        return "unary minus dropped"
    if kind == "name":
        old = node.attr
        node.attr = SWAP_NAME[old]
        return "%s -> %s" % (old, node.attr)
    if kind == "argswap":
        node.args = [node.args[1], node.args[0]]
        return "arguments of %s swapped" % node.func.attr
    raise ValueError(kind)


def targets(tree, table):
    out = []
    for node in ast.walk(tree):
        if isinstance(node, (ast.FunctionDef,)):
            props = table.get(node.name) or table.get("*")
            if props:
                out.append((node.name, props))
    return out


def generate(fname, n, rnd):
    src = open(os.path.join("/repo/xfab", fname)).read()
    tree = ast.parse(src)
    table = FUNCS[fname]
    cand = []
    fns = [nd for nd in ast.walk(tree) if isinstance(nd, ast.FunctionDef) and (nd.name in table or "*" in table)]
    for fi, fn in enumerate(fns):
        for si, (kind, node) in enumerate(sites(fn)):
            cand.append((fi, si))
    rnd.shuffle(cand)
    if PER_FUNCTION:
        seen, keep = {}, []
        for fi, si in cand:
            if fns[fi].name in SKIP or (ONLY_FUNCS and fns[fi].name not in ONLY_FUNCS):
                continue
            if seen.get(fi, 0) < PER_FUNCTION:
                seen[fi] = seen.get(fi, 0) + 1
                keep.append((fi, si))
        cand = keep
        n = len(cand)
    muts = []
    for fi, si in cand[:n]:
        t2 = copy.deepcopy(tree)
        fns2 = [nd for nd in ast.walk(t2) if isinstance(nd, ast.FunctionDef) and (nd.name in table or "*" in table)]
        fn = fns2[fi]
        kind, node = sites(fn)[si]
        line = getattr(node, "lineno", fn.lineno)
        desc = apply(kind, node, rnd)
        ast.fix_missing_locations(t2)
        muts.append({"file": fname, "function": fn.name, "line": line, "mutation": desc, "props": table.get(fn.name) or table["*"], "source": ast.unparse(t2)})
    return muts


def run_one(m):
    tmp = tempfile.mkdtemp(prefix="xfab_mut_")
    try:
        dst = os.path.join(tmp, "repo")
        subprocess.check_call(["git", "clone", "-q", "/repo", dst])
        open(os.path.join(dst, "xfab", m["file"]), "w").write(m["source"])
        env = dict(os.environ, PYTHONPATH=dst)
        r = subprocess.run([PY, "-c", "import xfab, xfab.tools, xfab.laue, xfab.detector, xfab.structure, xfab.symmetry, xfab.parameters, xfab.sg"], cwd=dst, env=env, capture_output=True, text=True)
        if r.returncode != 0:
            return "import-error", None
        r = subprocess.run([PY, "-m", "pytest", "-q", "-x", "-p", "no:cacheprovider", "test"], cwd=dst, env=env, capture_output=True, text=True)
        if r.returncode != 0:
            return "killed-by-suite", None
        caught = []
        for p in m["props"]:
            r = subprocess.run([os.path.join(VERIF, "run_check.py"), "--property", p, "--tier", "quick"], cwd=VERIF,
                               env=dict(os.environ, XFAB_VERIF_REPO=dst, VERIF_SEED=os.environ.get("VERIF_SEED", "0")), capture_output=True, text=True)
            if r.returncode == 1 and "VIOLATION" in r.stdout:
                caught.append(p)
            elif r.returncode == 2:
                caught.append(p + "(exit2)")
        return ("caught" if caught else "SURVIVED"), caught
    finally:
        shutil.rmtree(tmp, ignore_errors=True)


PER_FUNCTION = 0
SKIP = set()
ONLY_FUNCS = set()


def main():
    global PER_FUNCTION, SKIP, ONLY_FUNCS
    if "--funcs" in sys.argv:
        ONLY_FUNCS = set(sys.argv[sys.argv.index("--funcs") + 1].split(","))
    n = int(sys.argv[1])
    if "--per-function" in sys.argv:
        PER_FUNCTION = int(sys.argv[sys.argv.index("--per-function") + 1])
    if "--skip" in sys.argv:
        SKIP = set(sys.argv[sys.argv.index("--skip") + 1].split(","))
    seed = int(sys.argv[sys.argv.index("--seed") + 1]) if "--seed" in sys.argv else 0
    only = sys.argv[sys.argv.index("--only") + 1].split(",") if "--only" in sys.argv else list(FUNCS)
    out = sys.argv[sys.argv.index("--out") + 1] if "--out" in sys.argv else "/root/mutants.json"
    rnd = random.Random(seed)
    results = []
    for fname in only:
        for m in generate(fname, n, rnd):
            t0 = time.time()
            verdict, caught = run_one(m)
            rec = {k: m[k] for k in ("file", "function", "line", "mutation", "props")}
            rec.update(verdict=verdict, caught_by=caught, seconds=round(time.time() - t0))
            results.append(rec)
            print("%-16s %s:%s:%d  %s  %s" % (verdict, m["file"], m["function"], m["line"], m["mutation"], caught or ""), flush=True)
            json.dump(results, open(out, "w"), indent=1)
    tot = {}
    for r in results:
        tot[r["verdict"]] = tot.get(r["verdict"], 0) + 1
    print("summary", tot)


if __name__ == "__main__":
    main()
