#!/venv/bin/python
"""Development tool for the seeded-change catalogue (/verif/seeded/<id>/: patch.diff, demo.py, meta.json).

  seeded.py import <dir-with-Cxx?.patch/_demo.py/_meta.json>   verify (tests green, demo fails with / passes without) and copy
  seeded.py run [<id> ...] [--all-checks] [--tier quick]        run the property's check (or every check) against each seeded change

Everything happens in a fresh clone of /repo under a temporary directory that is removed afterwards; /repo is never touched."""
import os, sys, subprocess, tempfile, shutil, json, glob, re, time
VERIF = os.path.dirname(os.path.dirname(os.path.abspath(__file__)))
SEEDED = os.path.join(VERIF, "seeded")
PY = "/venv/bin/python"


def clone(tmp):
    dst = os.path.join(tmp, "repo")
    subprocess.check_call(["git", "clone", "-q", "/repo", dst])
    return dst


def tests(dst):
    r = subprocess.run([PY, "-m", "pytest", "-q", "-p", "no:cacheprovider", "test"], cwd=dst, env=dict(os.environ, PYTHONPATH=dst), capture_output=True, text=True)
    last = r.stdout.strip().splitlines()[-1] if r.stdout.strip() else r.stderr[-200:]
    return r.returncode == 0, last


def demo(dst, path):
    r = subprocess.run([PY, path], cwd=dst, env=dict(os.environ, PYTHONPATH=dst), capture_output=True, text=True, timeout=1800)
    return r.returncode, (r.stdout + r.stderr)[-400:]


def do_import(src):
    os.makedirs(SEEDED, exist_ok=True)
    for patch in sorted(glob.glob(os.path.join(src, "C*.patch"))):
        sid = os.path.basename(patch)[:-6]
        dm, meta = os.path.join(src, sid + "_demo.py"), os.path.join(src, sid + "_meta.json")
        if not (os.path.exists(dm) and os.path.exists(meta)):
            print(sid, "incomplete delivery")
            continue
        tmp = tempfile.mkdtemp(prefix="xfab_seed_")
        try:
            dst = clone(tmp)
            rc0, _ = demo(dst, dm)
            ap = subprocess.run(["git", "-C", dst, "apply", patch], capture_output=True, text=True)
            if ap.returncode:
                print(sid, "patch does not apply:", ap.stderr[:200])
                continue
            ok, last = tests(dst)
            rc1, out1 = demo(dst, dm)
            verdict = ok and rc0 == 0 and rc1 == 1
            print("%s tests=%s (%s) demo clean=%d patched=%d -> %s" % (sid, ok, last, rc0, rc1, "KEEP" if verdict else "REJECT"))
            if verdict:
                d = os.path.join(SEEDED, sid)
                os.makedirs(d, exist_ok=True)
                shutil.copy(patch, os.path.join(d, "patch.diff"))
                shutil.copy(dm, os.path.join(d, "demo.py"))
                m = json.load(open(meta))
                m["confirmed"] = {"tests": last, "demo_exit_clean_tree": rc0, "demo_exit_patched_tree": rc1,
                                  "how": "fresh clone of /repo HEAD; git apply patch.diff; pytest test (73 pass); demo.py exit 1; without patch exit 0",
                                  "demo_output_tail": out1[-300:]}
                json.dump(m, open(os.path.join(d, "meta.json"), "w"), indent=1)
        finally:
            shutil.rmtree(tmp, ignore_errors=True)


def do_run(ids, all_checks, tier):
    ids = ids or sorted(d for d in os.listdir(SEEDED) if re.match(r"^C\d\d[a-z]$", d))
    manifest = json.load(open(os.path.join(VERIF, "MANIFEST.json")))
    allprops = [c["property_id"] for c in manifest["checks"]]
    results = {}
    for sid in ids:
        d = os.path.join(SEEDED, sid)
        meta = json.load(open(os.path.join(d, "meta.json")))
        prop = meta["property"]
        if meta.get("not_claimed"):
            print("%s target=%s NOT-CLAIMED (skipped): outside the property as stated, see meta.json" % (sid, prop))
            continue
        if meta.get("obsolete"):
            print("%s target=%s OBSOLETE (skipped): edited lines removed by a later fix: commit" % (sid, prop))
            continue
        tmp = tempfile.mkdtemp(prefix="xfab_seed_")
        try:
            dst = clone(tmp)
            ap = subprocess.run(["git", "-C", dst, "apply", os.path.join(d, "patch.diff")], capture_output=True, text=True)
            if ap.returncode:
                print("%s target=%s PATCH DOES NOT APPLY to the current /repo HEAD: %s" % (sid, prop, ap.stderr.strip()[:200]))
                continue
            props = allprops if all_checks else [prop]
            caught = []
            t0 = time.time()
            for p in props:
                r = subprocess.run([os.path.join(VERIF, "run_check.py"), "--property", p, "--tier", tier],
                                   env=dict(os.environ, XFAB_VERIF_REPO=dst), capture_output=True, text=True)
                if r.returncode == 1 and "VIOLATION property=%s" % p in r.stdout:
                    caught.append(p)
                elif r.returncode not in (0, 1):
                    caught.append(p + "(exit%d)" % r.returncode)
            results[sid] = caught
            print("%s target=%s caught_by=%s (%.0fs)" % (sid, prop, caught or "NONE", time.time() - t0))
            sys.stdout.flush()
        finally:
            shutil.rmtree(tmp, ignore_errors=True)
    return results


if __name__ == "__main__":
    a = sys.argv[1:]
    if a[0] == "import":
        do_import(a[1])
    else:
        tier = "quick"
        if "--tier" in a:
            tier = a[a.index("--tier") + 1]
            a = [x for i, x in enumerate(a) if x != "--tier" and (i == 0 or a[i - 1] != "--tier")]
        allc = "--all-checks" in a
        ids = [x for x in a[1:] if not x.startswith("--")]
        do_run(ids, allc, tier)
