#!/venv/bin/python
"""Sensitivity self-test (development tool, not a registered check).

usage: mutation_probe.py [--tests] [--tier quick] <patch-or-'revert:<commit>'> <property> [<property> ...]

Copies /repo to a fresh temporary directory, applies the patch (or reverts a fix: commit),
optionally runs the repository's 73 tests there, runs the named checks with XFAB_VERIF_REPO pointing
at the copy, prints each exit code and removes the copy."""
import os, sys, subprocess, tempfile, shutil

VERIF = os.path.dirname(os.path.dirname(os.path.abspath(__file__)))


def main():
    args = sys.argv[1:]
    run_tests = False
    tier = "quick"
    while args and args[0].startswith("--"):
        if args[0] == "--tests":
            run_tests = True
            args = args[1:]
        elif args[0] == "--tier":
            tier = args[1]
            args = args[2:]
    patch, props = args[0], args[1:]
    tmp = tempfile.mkdtemp(prefix="xfab_mut_")
    rc_all = {}
    try:
        dst = os.path.join(tmp, "repo")
        subprocess.check_call(["git", "clone", "-q", "/repo", dst])
        # carry over uncommitted edits of /repo as well
        diff = subprocess.run(["git", "-C", "/repo", "diff", "HEAD"], capture_output=True, text=True).stdout
        if diff.strip():
            subprocess.run(["git", "-C", dst, "apply"], input=diff, text=True, check=True)
        if patch.startswith("revert:"):
            d = subprocess.run(["git", "-C", dst, "show", patch[7:]], capture_output=True, text=True, check=True).stdout
            subprocess.run(["git", "-C", dst, "apply", "-R"], input=d, text=True, check=True)
        elif patch.startswith("edit:"):
            # edit:<relpath>@@<old>@@<new>[@@<occurrence index>]  - replace one occurrence of a literal string
            parts = patch[5:].split("@@")
            rel, old, new = parts[0], parts[1], parts[2]
            k = int(parts[3]) if len(parts) > 3 else 0
            fn = os.path.join(dst, rel)
            txt = open(fn).read()
            pos = -1
            for _ in range(k + 1):
                pos = txt.index(old, pos + 1)
            open(fn, "w").write(txt[:pos] + new + txt[pos + len(old):])
        else:
            subprocess.check_call(["git", "-C", dst, "apply", os.path.abspath(patch)])
        if run_tests:
            r = subprocess.run(["/venv/bin/python", "-m", "pytest", "-q", "-p", "no:cacheprovider", "-x", "test"],
                               cwd=dst, env=dict(os.environ, PYTHONPATH=dst), capture_output=True, text=True)
            print("repo tests:", r.stdout.strip().splitlines()[-1] if r.stdout.strip() else r.stderr[-300:])
        for p in props:
            env = dict(os.environ, XFAB_VERIF_REPO=dst)
            r = subprocess.run([os.path.join(VERIF, "run_check.py"), "--property", p, "--tier", tier],
                               env=env, capture_output=True, text=True)
            viol = [l for l in r.stdout.splitlines() if l.startswith("VIOLATION")]
            print("%s exit=%d violations=%d" % (p, r.returncode, len(viol)))
            for l in (r.stderr.splitlines()[:6] if r.returncode else []):
                print("   ", l[:300])
            rc_all[p] = r.returncode
    finally:
        shutil.rmtree(tmp, ignore_errors=True)
    return 0 if all(v == 1 for v in rc_all.values()) else 3


if __name__ == "__main__":
    sys.exit(main())
