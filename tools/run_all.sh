#!/bin/bash
# usage: tools/run_all.sh <tier> <seed> [props...]   - runs every registered check once, prints one line per check
cd "$(dirname "$0")/.."
tier=${1:-quick}; seed=${2:-0}; shift 2
props=${@:-C01 C02 C03 C04 C05 C06 C07 C08 C09 C10 C11 C12 C13 C14 C15 C16 C17 C18 C19 C20}
for p in $props; do
  out=$(VERIF_SEED=$seed ./run_check.py --property $p --tier $tier 2>&1); rc=$?
  echo "seed=$seed $p rc=$rc $(echo "$out" | grep -c '^VIOLATION') violations :: $(echo "$out" | tail -1)"
  if [ $rc -ne 0 ]; then echo "$out" | grep -v KNOWN | head -20; fi
done
