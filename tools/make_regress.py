#!/venv/bin/python
"""Development tool: (re)creates regress/<id>/*.json from the defects this project repaired or recorded.
For every fix: commit the commit is reverted in a scratch copy, the property's quick check is run against it and
the smallest failing cases (up to 3 buckets) are stored; for known findings the current tree is used."""
import os, sys, subprocess, json, glob, shutil, tempfile
VERIF = os.path.dirname(os.path.dirname(os.path.abspath(__file__)))
FIXES = [("a29e488", ["C09"]), ("c0394db", ["C07", "C08"]), ("b1361e1", ["C03"]), ("66e4510", ["C15", "C17"]), ("a6e7628", ["C15", "C17"]),
         ("f12bdbd", ["C05"]), ("65fe309", ["C05"]), ("fa38b97", ["C05"]), ("e224709", ["C11"]), ("33c0d41", ["C16"]), ("4f4fbab", ["C20"]),
         ("0b97550", ["C17"])]
KNOWN = ["C05", "C06", "C13", "C14", "C18"]


def run(prop, env):
    for f in glob.glob(os.path.join(VERIF, "replays", prop + "-*.json")):
        os.remove(f)
    r = subprocess.run([os.path.join(VERIF, "run_check.py"), "--property", prop, "--tier", "quick"], env=env, capture_output=True, text=True)
    return sorted(glob.glob(os.path.join(VERIF, "replays", prop + "-*.json")), key=os.path.getsize)


def keep(files, prop, tag, n=3):
    d = os.path.join(VERIF, "regress", prop)
    os.makedirs(d, exist_ok=True)
    seen = set()
    k = 0
    for f in files:
        b = json.load(open(f))["bucket"].split("/")[0]
        if b in seen and k >= 1:
            continue
        seen.add(b)
        k += 1
        shutil.copy(f, os.path.join(d, "%s-%d.json" % (tag, k)))
        if k >= n:
            break
    print(prop, tag, "kept", k, "of", len(files))


def main():
    for commit, props in FIXES:
        tmp = tempfile.mkdtemp(prefix="xfab_rg_")
        try:
            dst = os.path.join(tmp, "repo")
            subprocess.check_call(["git", "clone", "-q", "/repo", dst])
            d = subprocess.run(["git", "-C", dst, "show", commit], capture_output=True, text=True, check=True).stdout
            subprocess.run(["git", "-C", dst, "apply", "-R"], input=d, text=True, check=True, capture_output=True)
            for p in props:
                files = run(p, dict(os.environ, XFAB_VERIF_REPO=dst))
                keep(files, p, "fixed-" + commit)
        finally:
            shutil.rmtree(tmp, ignore_errors=True)
    for p in KNOWN:
        files = run(p, dict(os.environ, VERIF_DUMP_KNOWN="1"))
        keep([f for f in files if "K1-" in f or "K2-" in f or "K3-" in f], p, "known", n=4)


if __name__ == "__main__":
    main()
